#include "guard.h"
#include <pthread.h>
#include <sys/mman.h>
#include <unistd.h>
#include <cstdio>
#include <cstdlib>
#include <cstring>

static size_t pagesz() { static size_t p = (size_t)sysconf(_SC_PAGESIZE); return p; }

bool GuardRegion::init(size_t capacity) {
    size_t ps = pagesz();
    cap = (capacity + ps - 1) / ps * ps;
    void *p = mmap(nullptr, cap + ps, PROT_READ | PROT_WRITE, MAP_PRIVATE | MAP_ANONYMOUS, -1, 0);
    if (p == MAP_FAILED) return false;
    base = (unsigned char *)p;
    if (mprotect(base + cap, ps, PROT_NONE) != 0) return false;
    return true;
}
unsigned char *GuardRegion::place(const void *bytes, size_t n) {
    if (n > cap) return nullptr;
    unsigned char *p = base + cap - n;
    if (n) memcpy(p, bytes, n);
    return p;
}
void GuardRegion::protect_readonly(bool on) {
    mprotect(base, cap, on ? PROT_READ : (PROT_READ | PROT_WRITE));
}

static const int MAXTASK = 8;
static GuardRegion g_in_t[MAXTASK], g_out_t[MAXTASK];
static int g_task = 0;
void guard_set_task(int t) { g_task = (t >= 0 && t < MAXTASK) ? t : 0; }
#define g_in (g_in_t[g_task])
#define g_out (g_out_t[g_task])
static const unsigned char CANARY = 0xC7;
static const size_t PRE = 64;

static uint64_t fnv(const unsigned char *p, size_t n) {
    uint64_t h = 1469598103934665603ull;
    for (size_t i = 0; i < n; i++) { h ^= p[i]; h *= 1099511628211ull; }
    return h;
}
static void ensure_region(GuardRegion &g, size_t n) {
    if (g.base && g.cap >= n) return;
    if (g.base) munmap(g.base, g.cap + pagesz());
    size_t want = n < (1u << 20) ? (1u << 20) : n * 2;
    if (!g.init(want)) { perror("guard mmap"); abort(); }
}
InputView present_input(const std::string &bytes, bool readonly) {
    ensure_region(g_in, bytes.size() + 64);
    // scribble in front of the bytes so that an under-read does not see stale data of an earlier document
    size_t pre = g_in.cap - bytes.size() < 64 ? g_in.cap - bytes.size() : 64;
    unsigned char *p = g_in.place(bytes.data(), bytes.size());
    memset(p - pre, 0x7F, pre);
    InputView v;
    v.ptr = (const char *)p;
    v.n = bytes.size();
    v.sum = fnv(p, v.n);
    v.readonly = readonly;
    if (readonly) g_in.protect_readonly(true);
    return v;
}
bool input_unmodified(const InputView &v, const std::string &bytes) {
    return fnv((const unsigned char *)v.ptr, v.n) == v.sum && memcmp(v.ptr, bytes.data(), v.n) == 0;
}
void release_input(InputView &v) {
    if (v.readonly) g_in.protect_readonly(false);
    v.readonly = false;
}
OutputView present_output(size_t n, unsigned char fill) {
    ensure_region(g_out, n + PRE + 64);
    OutputView v;
    v.n = n;
    v.pre = PRE;
    unsigned char *p = g_out.end() - n;
    memset(p - PRE, CANARY, PRE);
    memset(p, fill, n);
    v.ptr = (char *)p;
    return v;
}
bool output_canaries_intact(const OutputView &v) {
    const unsigned char *p = (const unsigned char *)v.ptr - v.pre;
    for (size_t i = 0; i < v.pre; i++) if (p[i] != CANARY) return false;
    return true;
}

struct TArg { void (*fn)(void *); void *arg; };
static void *tmain(void *a) { TArg *t = (TArg *)a; t->fn(t->arg); return nullptr; }
void run_on_bounded_stack(size_t stack_bytes, void (*fn)(void *), void *arg) {
    pthread_attr_t at;
    pthread_attr_init(&at);
    pthread_attr_setstacksize(&at, stack_bytes);
    pthread_attr_setguardsize(&at, pagesz());
    pthread_t th;
    TArg t{fn, arg};
    if (pthread_create(&th, &at, tmain, &t) != 0) { perror("pthread_create"); abort(); }
    pthread_join(th, nullptr);
    pthread_attr_destroy(&at);
}
