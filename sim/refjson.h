// Independent JSON reader (strict RFC 8259 mode and cJSON-dialect recogniser)
// and the serialiser that feeds the document store. Written from RFC 8259 and
// the property statements; shares no code with cJSON.c.
#pragma once
#include <string>
#include "model.h"

enum Verdict { V_INSIDE = 0, V_OUTSIDE = 1, V_UNSPECIFIED = 2 };

struct ReadResult {
    Verdict verdict = V_OUTSIDE;
    bool strict = false;        // the whole input is one strict RFC 8259 text (valid UTF-8, no leniency used)
    size_t end = 0;             // offset just after the first complete value (when one was read)
    bool complete = false;      // a first complete value was read
    MVal *value = nullptr;      // decoded first value (owned by the result; may be NULL when not complete)
    std::string why;            // reason for OUTSIDE/UNSPECIFIED
    bool trailer_demands_success = false;  // require_null_terminated: success demanded by every reading
    bool trailer_demands_failure = false;  // require_null_terminated: failure demanded by every reading
    bool used_leniency = false;
    bool has_u0000 = false;
    bool ambiguous_number = false;
    ~ReadResult() { mv_free(value); }
    ReadResult() = default;
    ReadResult(const ReadResult &) = delete;
    ReadResult &operator=(const ReadResult &) = delete;
};

// Classify `n` declared bytes as the parse entry points see them.
//   cstring: the entry point takes a C string (text ends at the first zero byte; n = strlen+1)
//   require_term: require_null_terminated
void classify_text(const unsigned char *b, size_t n, bool cstring, bool require_term, ReadResult &out);

// Strict RFC 8259 reader over exactly n bytes (no terminator involved). Returns NULL and why on rejection.
MVal *strict_read(const std::string &text, std::string &why);

// Serialise a model value to a valid RFC 8259 text with seeded spelling choices.
struct SpellOpts {
    bool bom = false;
    int ws = 1;          // 0: none, 1: sparse, 2: heavy
    bool escapes = true; // vary escape spellings
    bool numspell = true;
};
std::string serialize_value(const MVal *m, Rng &r, const SpellOpts &o);
// remove insignificant whitespace (outside strings) from a JSON text
std::string strip_ws(const std::string &text);
bool valid_utf8(const std::string &s);
