#include "run.h"
#include <set>
#include "gen.h"

static bool in(const std::string &op, std::initializer_list<const char *> l) { for (auto x : l) if (op == x) return true; return false; }

WorldCfg cfg_for(const std::string &p) {
    WorldCfg c;
    c.property = p;
    if (p == "C06") { c.judge_values = true; c.judged = [](const std::string &) { return true; }; }
    else if (p == "C07") { c.judge_values = false; c.judge_memory = true; c.judged = [](const std::string &) { return true; }; }
    else if (p == "C14") { c.judge_values = false; c.judge_hooks = true; c.judged = [](const std::string &) { return true; }; }
    else if (p == "C04") { c.judged = [](const std::string &op) { return op == "roundtrip"; }; }
    else if (p == "C05") { c.judged = [](const std::string &op) { return op == "strictprint"; }; }
    else if (p == "C09") { c.judged = [](const std::string &op) { return op == "capscan"; }; }
    else if (p == "C11") { c.judge_independence = true; c.judged = [](const std::string &op) { return in(op, {"dupcheck", "dup", "dup_deep", "dup_cyclic", "dup_wide", "dup_refcycle"}); }; }
    else if (p == "C16") { c.judged = [](const std::string &op) { return in(op, {"patch_apply"}); }; }
    else if (p == "C17") { c.judge_followup = true; c.judged = [](const std::string &op) { return in(op, {"patch_gen"}); }; }
    else if (p == "C18") { c.judge_followup = true; c.judged = [](const std::string &op) { return in(op, {"merge_apply", "merge_gen"}); }; }
    else if (p == "C19") { c.judge_followup = true; c.judged = [](const std::string &op) { return in(op, {"sort", "twinprint", "sort_big"}); }; c.structure_only_utils = true; }
    else if (p == "C08") { c.judge_values = true; c.fault_mode = true; c.judged = [](const std::string &) { return false; }; }
    else if (p == "C20") { c.judge_values = false; c.log_mismatch = true; c.judged = [](const std::string &) { return true; }; }
    else c.judged = [](const std::string &) { return true; };
    return c;
}

RunResult run_hist(const Plan &p, EventLog &log, RunStats &stats, Progress *prog) {
    RunResult rr;
    asim::reset_run((unsigned char)p.knob("fill", 0xA5), p.knob("realloc", 0) ? asim::RA_INPLACE : asim::RA_MOVE, p.knob("reuse", 0) != 0);
    borrowed::reset_run();
    WorldCfg cfg = cfg_for(p.property);
    cfg.hookcfg = p.knob("hooks", 0) ? HK_BOTH : HK_DEFAULT;
    cfg.hist_faults = p.knob("faults", 0) != 0;
    if (cfg.hist_faults) stats.fault_counts["cfg_fault_injecting_run"]++;
    stats.fault_counts[cfg.hookcfg == HK_BOTH ? "cfg_custom_hooks" : "cfg_default_allocator"]++;
    stats.fault_counts[p.knob("realloc", 0) ? "cfg_realloc_inplace" : "cfg_realloc_move"]++;
    if (p.knob("reuse", 0)) stats.fault_counts["cfg_allocator_reuses_released_blocks"]++;
    uint64_t moved0 = asim::counters().realloc_moved, inpl0 = asim::counters().realloc_inplace, judged0 = stats.judged_steps, reused0 = asim::counters().reused;
    {
        World w(cfg, log, stats);
        w.profile = (int)p.knob("profile", 0);
        w.wide = p.knob("wide", 0) != 0;
        if (prog) w.live_judged = &prog->judged;
        try {
            for (size_t i = 0; i < p.steps.size(); i++) {
                if (prog) prog->step = (int)i;
                w.exec(p.steps[i], (int)i);
                if (w.nt_flag && p.property != "C04" && p.property != "C05" && p.property != "C09" && p.property != "C16" && p.property != "C17" && p.property != "C18") stats.state_hashes.push_back(w.state_hash());
            }
            if (prog) { prog->step = (int)p.steps.size(); prog->judged = (cfg.judge_memory || cfg.judge_hooks) ? 1 : 0; }
            w.finish();
        } catch (Stop &s) {
            rr.outcome = s.o;
            w.abandon();
        }
    }
    stats.fault_counts["realloc_move"] += asim::counters().realloc_moved - moved0;
    stats.fault_counts["realloc_inplace"] += asim::counters().realloc_inplace - inpl0;
    stats.fault_counts["released_block_reused"] += asim::counters().reused - reused0;
    cJSON_InitHooks(nullptr);
    asim::set_epoch(asim::EP_DEFAULT);
    rr.evaluations = stats.judged_steps - judged0;
    return rr;
}

RunResult run_plan(const Plan &p, EventLog &log, RunStats &stats, Progress *prog) {
    if (p.engine == "hist" || p.engine == "cap") return run_hist(p, log, stats, prog);
    if (p.engine == "afail") return run_afail(p, log, stats, prog);
    if (p.engine == "store") return run_store(p, log, stats, prog);
    if (p.engine == "sched") return run_sched(p, log, stats, prog);
    RunResult rr;
    rr.outcome.kind = Outcome::DISCARD;
    rr.outcome.msg = "unknown engine " + p.engine;
    return rr;
}
