// The history executor: a world of slots holding library trees and their model
// twins. Ops come from a Plan; arguments are free integers interpreted modulo
// what is live, so every subsequence of a plan is a valid plan.
#pragma once
#include <functional>
#include <map>
#include <string>
#include <vector>
#include "alloc_sim.h"
#include "model.h"
#include "plan.h"

struct Outcome {
    enum Kind { OK = 0, VIOLATION = 1, DISCARD = 2 } kind = OK;
    std::string oracle;  // violation class, e.g. "C06/refinement"
    std::string msg;
    int step = -1;
};
struct Stop { Outcome o; };

struct EventLog {
    bool keep_text = false;
    uint64_t hash = 1469598103934665603ull;
    std::vector<std::string> lines;
    uint64_t count = 0;
    void add(const std::string &l) {
        hash = hash_str(l, hash) * 31 + 7;
        count++;
        if (keep_text) lines.push_back(l);
    }
};

// per-run statistics reported as evidence
struct RunStats {
    uint64_t steps = 0, noops = 0, judged_steps = 0, adopted_steps = 0;
    std::map<std::string, uint64_t> op_counts;
    std::map<std::string, uint64_t> fault_counts;   // fired faults / configuration kinds
    std::vector<uint64_t> state_hashes;             // distinct-state measure
    uint64_t nontrivial = 0;
    std::map<std::string, uint64_t> probes;          // named reach probes
};

enum HookCfg { HK_DEFAULT = 0, HK_BOTH = 1, HK_MALLOC_ONLY = 2, HK_FREE_ONLY = 3, HK_NULL_MEMBERS = 4, HK_RESET = 5 };

struct WorldCfg {
    std::string property;      // C06, C07, ...
    bool judge_values = true;  // structure/return-value mismatches in judged steps are violations (else the run is discarded)
    bool judge_memory = false; // ledger / borrowed-memory / leak oracles are violations (else discard)
    bool judge_hooks = false;  // C14: routing of every request
    bool log_mismatch = false; // sched: mismatches go to the trace instead of stopping the run
    bool fault_mode = false;   // afail: the armed step may fail cleanly
    bool fault_mode_counting = false;  // afail: fault-free counting run, nothing is judged
    bool hist_faults = false;  // hist (C07/C14 fault-injecting runs): an "arm" step makes request k of the next core call fail
    bool shared_world = false;   // sched: hooks are installed before the tasks start and the ledger is shared by all tasks
    bool structure_only_utils = false; // C19: Utils calls other than sort are judged for the well-formedness of what they leave behind only
    bool judge_followup = false; // C17-C19: core edits on trees that went through a Utils call are judged too
    bool judge_independence = false; // C11: a tree not involved in a call must not change
    int hookcfg = HK_DEFAULT;
    int task = 0;
    // which ops are judged for this property (others are stage-setting)
    std::function<bool(const std::string &op)> judged;
};

static const int NSLOTS = 8;

class World {
   public:
    World(const WorldCfg &cfg, EventLog &log, RunStats &stats);
    ~World();
    // executes one step; throws Stop on violation/discard
    void exec(const Step &st, int index);
    // delete all remaining roots and check the ledger balance; throws Stop
    void finish();
    // drop everything without touching the library (after a violation)
    void abandon();
    uint64_t state_hash() const;

    WorldCfg cfg;
    EventLog &log;
    RunStats &stats;
    MVal *slots[NSLOTS];
    int cur_step = -1;
    std::string cur_op;
    bool cur_judged = true;
    long arm_fail_k = 0;       // afail: request index to fail in the armed step (0: none)
    int armed_step = -1;
    bool failed_cleanly = false;  // set by a handler that observed the documented failure value under a fired fault
    size_t base_live = 0;      // ledger live blocks when the world was created
    int profile = 0;           // value-generation profile (plan knob)
    bool wide = false;         // plan knob: parsed documents hold wide containers (33+ members) much more often
    // C16: the patch being assembled step by step (model side) and the reference document it is generated against
    MVal *pending_patch = nullptr;
    MVal *pending_ref = nullptr;
    int pending_slot = -1;
    bool pending_corrupt = false;
    bool pending_ref_failed = false;
    void drop_pending();
    bool touched[NSLOTS];       // slots the current step picked (may legitimately change)
    bool utils_touched[NSLOTS]; // slots whose tree went through a Utils call (follow-up edits are judged)
    void touch(int slot) { if (slot >= 0 && slot < NSLOTS) touched[slot] = true; }
    void mark_utils(int slot) { if (slot >= 0 && slot < NSLOTS) utils_touched[slot] = true; }
    bool step_is_judged() const;
    bool nt_flag = false;       // the current step reached a non-trivial case (evidence: distinct_nontrivial)
    void mark_nontrivial() { stats.nontrivial++; nt_flag = true; }
    long pending_arm = 0;         // set by an "arm" step, consumed by the next step
    bool ledger_judged_from_target = false;  // afail: ledger violations at or after the faulted call are violations
    int force_judged_step = -1;   // afail: the faulted call is judged although the rest of the history is stage-setting
    int crash_judged_from = 1 << 30;  // afail: a crash at or after this step counts (library must remain usable)
    volatile int *live_judged = nullptr;  // progress word for crash attribution (1 while a judged call may be running)

    // --- helpers used by op handlers
    void mismatch(const std::string &oracle, const std::string &msg);   // judged ? violation : discard
    void violation(const std::string &oracle, const std::string &msg);
    void discard(const std::string &why);
    void expect(bool cond, const std::string &oracle, const std::string &msg) { if (!cond) mismatch(oracle, msg); }
    bool tolerate_failure(bool is_failure_value);
    void noop(const Step &st, const char *why);
    int live_slot(int64_t arg);            // index of the (arg mod #live)-th non-empty slot, -1 if none
    int free_slot();
    MVal *pick(int64_t slotarg, int64_t selarg, const std::function<bool(MVal *)> &pred, int *slot_out = nullptr);
    bool movable_root(MVal *r) const { return r && !r->parent && r->frozen == 0; }
    bool mutable_node(MVal *m) const;
    void model_delete(MVal *m);            // frees a detached model subtree, releasing freezes it held
    void check_all(const char *when);
    void install_hooks(int cfg);
    std::string prop() const { return cfg.property; }

   private:
    void dispatch(const Step &st);
};

// registry of op handlers (world_ops*.cc)
typedef void (*OpFn)(World &, const Step &);
std::map<std::string, OpFn> &op_table();
struct OpReg { OpReg(const char *name, OpFn fn) { op_table()[name] = fn; } };
#define DEFOP(name) static void op_##name(World &w, const Step &st); static OpReg reg_##name(#name, op_##name); static void op_##name(World &w, const Step &st)
