// Guarded memory views: seam S3 (input bytes flush against an inaccessible
// page, read-only during the call) and S4 (output buffer of capacity n flush
// against an inaccessible page, canaries in front).
#pragma once
#include <cstddef>
#include <cstdint>
#include <string>

struct GuardRegion {
    unsigned char *base = nullptr;  // start of accessible pages
    size_t cap = 0;                 // accessible bytes (multiple of page size); page at base+cap is PROT_NONE
    bool init(size_t capacity);
    // place n bytes so that byte n is the first byte of the inaccessible page; returns pointer to byte 0
    unsigned char *place(const void *bytes, size_t n);
    unsigned char *end() const { return base + cap; }
    void protect_readonly(bool on);
};

struct InputView {
    // presents bytes through the guarded region; after the call, verify() tells whether the bytes were modified
    const char *ptr = nullptr;
    size_t n = 0;
    uint64_t sum = 0;
    bool readonly = false;
};
InputView present_input(const std::string &bytes, bool readonly);
bool input_unmodified(const InputView &v, const std::string &bytes);
void release_input(InputView &v);

struct OutputView {
    char *ptr = nullptr;
    size_t n = 0;
    size_t pre = 0;  // canary bytes in front
};
OutputView present_output(size_t n, unsigned char fill);
bool output_canaries_intact(const OutputView &v);

// sched engine: each task gets its own guarded regions (the harness copies into them)
void guard_set_task(int task);
// Run fn on a thread with an explicit stack of `stack_bytes` (+ guard page).
void run_on_bounded_stack(size_t stack_bytes, void (*fn)(void *), void *arg);
