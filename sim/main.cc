// cjsim: deterministic simulator for cJSON. Modes: gen | batch | replay | merge.
#include <fcntl.h>
#include <sys/mman.h>
#include <sys/stat.h>
#include <unistd.h>
#include <algorithm>
#include <chrono>
#include <cstdio>
#include <cstdlib>
#include <cstring>
#include <fstream>
#include <sstream>
#include <unordered_set>
#include <signal.h>
#include "gen.h"
#include "guard.h"
#include "run.h"

extern "C" const char *__asan_default_options(void);
extern "C" __attribute__((used, visibility("default"))) const char *__asan_default_options(void) {
    return "exitcode=77:detect_leaks=0:abort_on_error=0:allocator_may_return_null=1:detect_stack_use_after_return=0:handle_segv=1:print_summary=1:max_malloc_fill_size=0";
}
extern "C" __attribute__((used, visibility("default"))) const char *__ubsan_default_options(void) {
    return "halt_on_error=1:exitcode=77:print_stacktrace=1";
}
extern "C" __attribute__((used, visibility("default"))) const char *__tsan_default_options(void) {
    return "exitcode=66:halt_on_error=1:report_signal_unsafe=0:second_deadlock_stack=0:history_size=4";
}

extern "C" {
void __asan_set_error_report_callback(void (*callback)(const char *)) __attribute__((weak));
void *__asan_get_report_address(void) __attribute__((weak));
}
static void asan_report_cb(const char *) {
    // tell the driver what kind of custom-arena address the sanitizer tripped over (freed block vs redzone)
    if (!__asan_get_report_address) return;
    const char *c = asim::classify_address(__asan_get_report_address());
    if (borrowed::contains(__asan_get_report_address())) c = "access-beyond-a-lent-text";
    char buf[160];
    int n = snprintf(buf, sizeof buf, "CJSIM-ARENA: %s\n", c);
    if (n > 0) { ssize_t wr = write(2, buf, (size_t)n); (void)wr; }
}
// A write into memory the library only borrows (constant pool, lent strings: read-only mappings) arrives as SIGSEGV: name it
// for the driver, then let the sanitizer's (or the default) handler produce its report.
static struct sigaction g_prev_segv;
static void segv_handler(int sig, siginfo_t *si, void *uc) {
    if (si && borrowed::contains(si->si_addr)) {
        static const char msg[] = "CJSIM-BORROWED: write-to-borrowed-memory\n";
        ssize_t wr = write(2, msg, sizeof msg - 1); (void)wr;
    }
    if ((g_prev_segv.sa_flags & SA_SIGINFO) && g_prev_segv.sa_sigaction) { g_prev_segv.sa_sigaction(sig, si, uc); return; }
    if (!(g_prev_segv.sa_flags & SA_SIGINFO) && g_prev_segv.sa_handler != SIG_DFL && g_prev_segv.sa_handler != SIG_IGN) { g_prev_segv.sa_handler(sig); return; }
    signal(sig, SIG_DFL);
    raise(sig);
}
static void install_segv_handler() {
    struct sigaction sa;
    memset(&sa, 0, sizeof sa);
    if (sigaction(SIGSEGV, nullptr, &g_prev_segv) != 0) return;
    sa.sa_sigaction = segv_handler;
    sa.sa_flags = SA_SIGINFO | SA_ONSTACK | SA_NODEFER;
    sigemptyset(&sa.sa_mask);
    sigaction(SIGSEGV, &sa, nullptr);
}
static Plan gen_any(const std::string &prop, uint64_t seed, int64_t run) {
    std::string e = engine_of(prop);
    if (e == "store") return gen_store_plan(prop, seed, run);
    if (e == "afail") return gen_afail_plan(prop, seed, run);
    if (e == "sched") return gen_sched_plan(prop, seed, run);
    return gen_plan(prop, seed, run);
}
static std::string jesc(const std::string &s) {
    std::string o;
    for (unsigned char c : s) {
        char t[8];
        if (c == '"' || c == '\\') { o.push_back('\\'); o.push_back((char)c); }
        else if (c >= 32 && c < 127) o.push_back((char)c);
        else { snprintf(t, sizeof t, "\\u%04x", c); o += t; }
    }
    return o;
}
static std::string oneline(std::string s) { for (auto &c : s) if (c == '\n' || c == '\r' || c == '\t') c = ' '; return s; }

static Progress *map_progress(const char *path) {
    static Progress dummy;
    if (!path || !*path || !strcmp(path, "-")) return &dummy;
    int fd = open(path, O_RDWR | O_CREAT, 0644);
    if (fd < 0) return &dummy;
    if (ftruncate(fd, sizeof(Progress)) != 0) { close(fd); return &dummy; }
    void *p = mmap(nullptr, sizeof(Progress), PROT_READ | PROT_WRITE, MAP_SHARED, fd, 0);
    close(fd);
    if (p == MAP_FAILED) return &dummy;
    return (Progress *)p;
}

struct Args { int argc; char **argv; int rc; };

static int do_gen(int argc, char **argv) {
    if (argc < 5) { fprintf(stderr, "usage: cjsim gen PROP SEED RUN [SUB]\n"); return 2; }
    Plan p = gen_any(argv[2], strtoull(argv[3], nullptr, 10), strtoll(argv[4], nullptr, 10));
    if (argc > 5) p.sub = strtoll(argv[5], nullptr, 10);
    fputs(plan_to_text(p).c_str(), stdout);
    return 0;
}

static int do_replay(int argc, char **argv) {
    if (argc < 3) { fprintf(stderr, "usage: cjsim replay FILE [--verbose] [--progress F]\n"); return 2; }
    bool verbose = false;
    const char *prog = nullptr;
    for (int i = 3; i < argc; i++) { if (!strcmp(argv[i], "--verbose")) verbose = true; if (!strcmp(argv[i], "--progress") && i + 1 < argc) prog = argv[++i]; }
    std::ifstream f(argv[2]);
    if (!f) { fprintf(stderr, "cannot open %s\n", argv[2]); return 2; }
    std::stringstream ss; ss << f.rdbuf();
    // a replay file holds one plan, or a chain of plans executed one after the other in this process
    // (separator line "=== plan"): process-global library state carries over between them
    std::vector<std::string> texts;
    {
        std::string cur, line;
        std::istringstream in(ss.str());
        while (std::getline(in, line)) {
            if (line.compare(0, 8, "=== plan") == 0) { texts.push_back(cur); cur.clear(); continue; }
            cur += line + "\n";
        }
        texts.push_back(cur);
    }
    Progress *pg = map_progress(prog);
    uint64_t chain_hash = 0;
    uint64_t events = 0;
    for (size_t k = 0; k < texts.size(); k++) {
        Plan p; std::string err;
        if (!plan_from_text(texts[k], p, err)) { fprintf(stderr, "bad plan %zu: %s\n", k, err.c_str()); return 2; }
        EventLog log; log.keep_text = true;
        RunStats stats;
        pg->run = p.run; pg->sub = p.sub; pg->step = -1; pg->judged = 0; pg->phase = 2;
        RunResult rr = run_plan(p, log, stats, pg);
        pg->phase = 0;
        chain_hash = texts.size() == 1 ? log.hash : mix64(chain_hash, log.hash);
        events += log.count;
        if (verbose) { if (texts.size() > 1) printf("LOG --- plan %zu of %zu\n", k + 1, texts.size()); for (auto &l : log.lines) printf("LOG %s\n", oneline(l).c_str()); }
        bool last = k + 1 == texts.size();
        if (rr.outcome.kind == Outcome::VIOLATION) {
            printf("HASH %016llx events %llu\n", (unsigned long long)chain_hash, (unsigned long long)events);
            printf("RESULT violation %s step %d\t%s%s\n", rr.outcome.oracle.c_str(), rr.outcome.step, oneline(rr.outcome.msg).c_str(), texts.size() > 1 ? (" [plan " + std::to_string(k + 1) + " of a chain of " + std::to_string(texts.size()) + " executed in one process]").c_str() : "");
            fflush(stdout);
            return 1;
        }
        if (last) {
            printf("HASH %016llx events %llu\n", (unsigned long long)chain_hash, (unsigned long long)events);
            if (rr.outcome.kind == Outcome::DISCARD) { printf("RESULT discard step %d\t%s\n", rr.outcome.step, oneline(rr.outcome.msg).c_str()); fflush(stdout); return 3; }
            printf("RESULT ok subcount %lld\n", (long long)rr.subcount);
        }
    }
    fflush(stdout);
    return 0;
}

static int do_batch(int argc, char **argv) {
    if (argc < 8) { fprintf(stderr, "usage: cjsim batch PROP SEED FIRST STRIDE COUNT BUDGET_SEC [PROGRESS [HASHFILE]]\n"); return 2; }
    std::string prop = argv[2];
    uint64_t seed = strtoull(argv[3], nullptr, 10);
    int64_t first = strtoll(argv[4], nullptr, 10), stride = strtoll(argv[5], nullptr, 10), count = strtoll(argv[6], nullptr, 10);
    double budget = atof(argv[7]);
    Progress *pg = map_progress(argc > 8 ? argv[8] : nullptr);
    const char *hashfile = argc > 9 ? argv[9] : nullptr;
    bool print_hashes = getenv("CJSIM_PRINT_HASHES") != nullptr;
    auto t0 = std::chrono::steady_clock::now();
    auto elapsed = [&]() { return std::chrono::duration<double>(std::chrono::steady_clock::now() - t0).count(); };
    RunStats stats;
    std::unordered_set<uint64_t> distinct;
    uint64_t runs = 0, execs = 0, violations = 0, discards = 0, evals = 0, events = 0;
    std::map<std::string, uint64_t> discard_kinds;
    std::vector<std::string> samples;
    int64_t done_upto = first - stride;
    auto emit = [&](const char *tag, bool final) {
        if (final && hashfile && *hashfile && strcmp(hashfile, "-")) {
            std::vector<uint64_t> v(distinct.begin(), distinct.end());
            std::sort(v.begin(), v.end());
            FILE *hf = fopen(hashfile, "wb");
            if (hf) { fwrite(v.data(), 8, v.size(), hf); fclose(hf); }
        }
        std::ostringstream o;
        o << "{\"runs\":" << runs << ",\"executions\":" << execs << ",\"violations\":" << violations << ",\"discards\":" << discards << ",\"evaluations\":" << evals
          << ",\"events\":" << events << ",\"steps\":" << stats.steps << ",\"noops\":" << stats.noops << ",\"judged_steps\":" << stats.judged_steps << ",\"adopted_steps\":" << stats.adopted_steps
          << ",\"nontrivial\":" << stats.nontrivial << ",\"distinct_local\":" << distinct.size() << ",\"last_run\":" << done_upto << ",\"wall\":" << elapsed();
        auto dumpmap = [&](const char *name, const std::map<std::string, uint64_t> &m) {
            o << ",\"" << name << "\":{";
            bool f = true;
            for (auto &kv : m) { if (!f) o << ","; f = false; o << "\"" << jesc(kv.first) << "\":" << kv.second; }
            o << "}";
        };
        dumpmap("ops", stats.op_counts);
        std::map<std::string, uint64_t> faults = stats.fault_counts, probes = stats.probes;
        faults["alloc_fail_fired"] += asim::counters().fail_fired;
        faults["alloc_fail_on_realloc"] += asim::counters().fail_on_realloc;
        dumpmap("faults", faults);
        for (int s = 0; s < 64; s++) if (asim::probe_hits[s]) probes["site_" + std::to_string(s)] += asim::probe_hits[s];
        dumpmap("probes", probes);
        dumpmap("discard_kinds", discard_kinds);
        o << ",\"alloc\":{\"malloc_libc\":" << asim::counters().mallocs[0] << ",\"malloc_custom\":" << asim::counters().mallocs[1] << ",\"free_libc\":" << asim::counters().frees[0]
          << ",\"free_custom\":" << asim::counters().frees[1] << ",\"realloc\":" << asim::counters().reallocs << ",\"free_null\":" << (asim::counters().free_null[0] + asim::counters().free_null[1]) << "}";
        o << ",\"samples\":[";
        for (size_t k = 0; k < samples.size(); k++) { if (k) o << ","; o << "\"" << jesc(samples[k]) << "\""; }
        o << "]}";
        printf("%s %s\n", tag, o.str().c_str());
        fflush(stdout);
    };
    double last_ckpt = 0;
    std::vector<int64_t> recent;  // runs this process has executed so far (for chain replays of cross-run state)
    for (int64_t n = 0; n < count; n++) {
        int64_t i = first + n * stride;
        if (elapsed() > budget) break;
        pg->run = i; pg->sub = -1; pg->step = -1; pg->judged = 0; pg->phase = 1;
        if ((n & 1023) == 0) { printf("START %lld\n", (long long)i); fflush(stdout); }
        Plan p = gen_any(prop, seed, i);
        bool sample = samples.size() < 2;
        int64_t subcount = 0;
        for (int64_t sub = -1;; ) {
            p.sub = sub;
            EventLog log; log.keep_text = sample && sub < 1;
            pg->sub = sub; pg->step = -1; pg->judged = 0; pg->phase = 2;
            stats.state_hashes.clear();
            RunResult rr = run_plan(p, log, stats, pg);
            pg->phase = 1;
            execs++;
            if (print_hashes) printf("H %lld %lld %016llx %d\n", (long long)i, (long long)sub, (unsigned long long)log.hash, (int)rr.outcome.kind);
            evals += rr.evaluations;
            events += log.count;
            for (uint64_t h : stats.state_hashes) if (distinct.size() < 8000000) distinct.insert(h);
            if (sub == -1) subcount = rr.subcount;
            if (rr.outcome.kind == Outcome::VIOLATION) {
                violations++;
                std::string prev;
                for (size_t k = recent.size() > 48 ? recent.size() - 48 : 0; k < recent.size(); k++) prev += (prev.empty() ? "" : ",") + std::to_string(recent[k]);
                printf("V %lld %lld %s step %d\t%s\tprev=%s\n", (long long)i, (long long)sub, rr.outcome.oracle.c_str(), rr.outcome.step, oneline(rr.outcome.msg).c_str(), prev.c_str());
                fflush(stdout);
            } else if (rr.outcome.kind == Outcome::DISCARD) {
                discards++;
                // kind of discard: the message without the position of the node it talks about ("node /1/0/3: ...") and without values
                std::string k = rr.outcome.msg;
                { size_t np = k.find("node "); if (np != std::string::npos) { size_t colon = k.find(": ", np); if (colon != std::string::npos) k.erase(np, colon + 2 - np); } }
                { size_t par = k.find(" ("); if (par != std::string::npos) k.erase(par); }
                k = k.substr(0, 110);
                discard_kinds[k]++;
                if (discards <= 10) { printf("D %lld %lld step %d\t%s\n", (long long)i, (long long)sub, rr.outcome.step, oneline(rr.outcome.msg).substr(0, 1500).c_str()); fflush(stdout); }
                if (sub == -1) subcount = 0;  // a scenario whose fault-free run already deviates is not enumerated
            }
            if (log.keep_text && sub == -1) {
                std::string s = "plan " + prop + " seed " + std::to_string(seed) + " run " + std::to_string(i) + ":";
                size_t k = 0;
                for (auto &l : log.lines) { if (k++ >= 40) { s += " | ..."; break; } s += " | " + oneline(l); }
                samples.push_back(s);
            }
            // next sub-execution
            if (sub == -1) sub = 1; else sub++;
            if (sub > subcount) break;
            if (elapsed() > budget * 1.5 + 5) break;
        }
        runs++;
        recent.push_back(i);
        done_upto = i;
        if (elapsed() - last_ckpt > 0.25) { last_ckpt = elapsed(); emit("CHECKPOINT", false); }
    }
    pg->phase = 0;
    emit("SUMMARY", true);
    return 0;
}

static int do_merge(int argc, char **argv) {
    std::vector<uint64_t> all;
    for (int i = 2; i < argc; i++) {
        FILE *f = fopen(argv[i], "rb");
        if (!f) continue;
        uint64_t buf[4096];
        size_t n;
        while ((n = fread(buf, 8, 4096, f)) > 0) all.insert(all.end(), buf, buf + n);
        fclose(f);
    }
    std::sort(all.begin(), all.end());
    all.erase(std::unique(all.begin(), all.end()), all.end());
    printf("%zu\n", all.size());
    return 0;
}

static void real_main(void *a) {
    Args *x = (Args *)a;
    int argc = x->argc; char **argv = x->argv;
    if (argc < 2) { fprintf(stderr, "usage: cjsim gen|batch|replay|merge ...\n"); x->rc = 2; return; }
    std::string mode = argv[1];
    asim::init();
    if (__asan_set_error_report_callback) __asan_set_error_report_callback(asan_report_cb);
    pool();
    install_segv_handler();
    if (mode == "gen") x->rc = do_gen(argc, argv);
    else if (mode == "batch") x->rc = do_batch(argc, argv);
    else if (mode == "replay") x->rc = do_replay(argc, argv);
    else if (mode == "merge") x->rc = do_merge(argc, argv);
    else { fprintf(stderr, "unknown mode\n"); x->rc = 2; }
}
int main(int argc, char **argv) {
    setvbuf(stdout, nullptr, _IOLBF, 0);
    Args a{argc, argv, 0};
#ifdef CJSIM_NO_BOUNDED_STACK
    real_main(&a);
#else
    // the Linux default a user gets: 8 MiB of stack, with a guard page
    run_on_bounded_stack((size_t)8 << 20, real_main, &a);
#endif
    return a.rc;
}
