#include "world.h"
#include <cstring>
#include "guard.h"

std::map<std::string, OpFn> &op_table() { static std::map<std::string, OpFn> t; return t; }

static bool ledger_block_live(const void *p) { return asim::is_live_block(p); }
World::World(const WorldCfg &c, EventLog &l, RunStats &s) : cfg(c), log(l), stats(s) {
    mv_block_live = ledger_block_live;
    mv_tolerate_dangling = !c.judge_values && (c.judge_memory || c.judge_hooks);
    mv_lenient_valueint = (c.property == "C07" || c.property == "C14" || c.property == "C16" || c.property == "C17" || c.property == "C18" || c.property == "C19");
    for (auto &x : slots) x = nullptr;
    for (auto &t : touched) t = false;
    for (auto &t : utils_touched) t = false;
    pool();
    base_live = asim::live_blocks();
    if (!cfg.shared_world) install_hooks(cfg.hookcfg);
}
World::~World() { abandon(); }
void World::abandon() {
    for (auto &x : slots) { mv_free(x); x = nullptr; }
    drop_pending();
}
void World::drop_pending() {
    mv_free(pending_patch); pending_patch = nullptr;
    mv_free(pending_ref); pending_ref = nullptr;
    pending_slot = -1; pending_corrupt = false; pending_ref_failed = false;
}
int world_profile(const World &w) { return w.profile; }
void World::install_hooks(int hc) {
    cJSON_Hooks h;
    switch (hc) {
        case HK_BOTH: h.malloc_fn = asim::cust_malloc; h.free_fn = asim::cust_free; cJSON_InitHooks(&h); asim::set_epoch(asim::EP_BOTH); break;
        case HK_MALLOC_ONLY: h.malloc_fn = asim::cust_malloc_m; h.free_fn = nullptr; cJSON_InitHooks(&h); asim::set_epoch(asim::EP_MALLOC_ONLY); break;
        case HK_FREE_ONLY: h.malloc_fn = nullptr; h.free_fn = asim::cust_free_f; cJSON_InitHooks(&h); asim::set_epoch(asim::EP_FREE_ONLY); break;
        case HK_NULL_MEMBERS: h.malloc_fn = nullptr; h.free_fn = nullptr; cJSON_InitHooks(&h); asim::set_epoch(asim::EP_DEFAULT); break;
        case HK_RESET: cJSON_InitHooks(nullptr); asim::set_epoch(asim::EP_DEFAULT); break;
        default: cJSON_InitHooks(nullptr); asim::set_epoch(asim::EP_DEFAULT); break;
    }
    cfg.hookcfg = hc;
}
void World::violation(const std::string &oracle, const std::string &msg) {
    Outcome o; o.kind = Outcome::VIOLATION; o.oracle = cfg.property + "/" + oracle; o.msg = msg; o.step = cur_step;
    throw Stop{o};
}
void World::discard(const std::string &why) {
    Outcome o; o.kind = Outcome::DISCARD; o.oracle = "discard"; o.msg = why; o.step = cur_step;
    throw Stop{o};
}
void World::mismatch(const std::string &oracle, const std::string &msg) {
    if (cfg.log_mismatch) {
        log.add("MISMATCH " + oracle);  // no message: block serials and the like differ between solo and concurrent runs
        Outcome o; o.kind = Outcome::DISCARD; o.oracle = "mismatch-logged"; o.msg = msg; o.step = cur_step;
        throw Stop{o};
    }
    if (cfg.structure_only_utils && !cur_judged && oracle != "structure" && (cur_op == "patch_apply" || cur_op == "patch_gen" || cur_op == "merge_gen" || cur_op == "merge_apply"))
        discard("value oracle of another property's Utils call (" + oracle + "): " + msg);
    if (cfg.judge_values && step_is_judged()) violation(oracle, msg);
    discard("stage-setting step deviates from the model (" + oracle + "): " + msg);
}
bool World::tolerate_failure(bool is_failure_value) {
    if (!(cfg.fault_mode || cfg.hist_faults) || cur_step != armed_step) return false;
    if (!asim::fail_fired_in_step()) return false;
    if (!is_failure_value) return false;
    failed_cleanly = true;
    log.add("  -> documented failure value under injected allocation failure");
    return true;
}
void World::noop(const Step &st, const char *why) {
    stats.noops++;
    stats.probes["noop_" + st.op]++;
    log.add("noop " + st.op + " (" + why + ")");
}
bool World::step_is_judged() const {
    if (cur_judged) return true;
    if (cfg.judge_followup)
        for (int i = 0; i < NSLOTS; i++) if (touched[i] && utils_touched[i]) return true;
    return false;
}
int World::live_slot(int64_t arg) {
    int idx[NSLOTS], n = 0;
    for (int i = 0; i < NSLOTS; i++) if (slots[i]) idx[n++] = i;
    if (!n) return -1;
    int s = idx[(uint64_t)arg % (uint64_t)n];
    touched[s] = true;
    if (live_judged && cfg.judge_followup && utils_touched[s]) *live_judged = 1;
    return s;
}
int World::free_slot() {
    for (int i = 0; i < NSLOTS; i++) if (!slots[i]) { touched[i] = true; utils_touched[i] = false; return i; }
    return -1;
}
MVal *World::pick(int64_t slotarg, int64_t selarg, const std::function<bool(MVal *)> &pred, int *slot_out) {
    int idx[NSLOTS], n = 0;
    for (int i = 0; i < NSLOTS; i++) if (slots[i]) idx[n++] = i;
    if (!n) return nullptr;
    // try the selected slot first, then the following ones, so that a pick succeeds whenever any slot qualifies
    for (int off = 0; off < n; off++) {
        int s = idx[((uint64_t)slotarg + (uint64_t)off) % (uint64_t)n];
        std::vector<MVal *> all, ok;
        mv_collect(slots[s], all);
        for (MVal *m : all) if (pred(m)) ok.push_back(m);
        if (ok.empty()) continue;
        touched[s] = true;
        if (live_judged && cfg.judge_followup && utils_touched[s]) *live_judged = 1;
        if (slot_out) *slot_out = s;
        return ok[(uint64_t)selarg % ok.size()];
    }
    return nullptr;
}
bool World::mutable_node(MVal *m) const {
    if (!m) return false;
    return mv_root(m)->frozen == 0;
}
void World::model_delete(MVal *m) {
    std::vector<MVal *> all;
    mv_collect(m, all);
    for (MVal *x : all)
        if ((x->refkind == R_ITEM || x->refkind == R_CHILD) && x->target) mv_root(x->target)->frozen--;
    mv_free(m);
}
uint64_t World::state_hash() const {
    uint64_t h = 0x1234567;
    for (int i = 0; i < NSLOTS; i++) h = mix64(h, slots[i] ? mv_hash(slots[i]) : 0);
    return h;
}
void World::check_all(const char *when) {
    // ledger first: a wrong release is reported as such, not as whatever it corrupts later
    std::string v = cfg.shared_world ? std::string() : asim::take_violation();
    if (!v.empty()) {
        if (cfg.judge_memory || cfg.judge_hooks) violation(cfg.judge_hooks ? "hooks-ledger" : "ledger", v + " [" + when + "]");
        if (ledger_judged_from_target && cur_step >= crash_judged_from) violation("ledger-after-failure", v + " [" + when + "]");
        // C16 "neither crashes nor leaks": handing the allocator a pointer it never returned (or one it already took back) IS a crash
        // with any real allocator; the simulated one records it instead of dying
        if (cfg.property == "C16" && cur_judged && cur_op == "patch_apply") violation("patch-ledger", v + " [" + when + "]");
        discard("ledger violation outside this property's oracles: " + v);
    }
    if (!pool().intact()) {
        if (cfg.judge_memory) violation("borrowed-memory", std::string("caller-owned key/string memory was modified [") + when + "]");
        discard("borrowed memory modified");
    }
    for (int i = 0; i < NSLOTS; i++) {
        if (!slots[i]) continue;
        std::string why;
        if (!walk_check(slots[i]->c, slots[i], true, why)) {
            if (!cfg.judge_values && (cfg.judge_memory || cfg.judge_hooks) && !cfg.log_mismatch) {
                // values are adopted for this property: re-read the model of this slot from the library's structure so that
                // the memory oracles keep running (references cannot be re-read: their targets are model knowledge)
                bool has_ref = false;
                { std::vector<MVal *> all; mv_collect(slots[i], all); for (MVal *m : all) if (m->refkind != R_NONE) has_ref = true; }
                size_t budget = 2000000;
                std::string rw;
                MVal *nm = (has_ref || slots[i]->frozen) ? nullptr : read_struct(slots[i]->c, budget, 0, rw, true);
                if (nm) {
                    bool ref_in_struct = false;
                    { std::vector<MVal *> all; mv_collect(nm, all); for (MVal *m : all) if (m->c && (m->c->type & cJSON_IsReference)) ref_in_struct = true; }
                    if (!ref_in_struct) {
                        mv_free(slots[i]);
                        slots[i] = nm;
                        stats.probes["model_readopted_after_deviation"]++;
                        log.add("readopt slot " + std::to_string(i));
                        continue;
                    }
                    mv_free(nm);
                }
                discard(std::string("stage-setting deviation that cannot be adopted: ") + why);
            }
            if (!touched[i]) {
                if (cfg.judge_independence && !cfg.log_mismatch) violation("independence", std::string("a tree not involved in ") + when + " changed (slot " + std::to_string(i) + "): " + why);
                if (!cfg.log_mismatch) discard(std::string("a tree not involved in ") + when + " deviates from the model: " + why);
            }
            if (cfg.judge_followup && !cur_judged && !utils_touched[i] && !cfg.log_mismatch)
                discard("a tree that did not go through a Utils call deviates from the model after " + std::string(when) + ": " + why);
            mismatch("structure", "slot " + std::to_string(i) + " after " + when + ": " + why);
        }
    }
}
void World::exec(const Step &st, int index) {
    cur_step = index;
    cur_op = st.op;
    cur_judged = cfg.judged ? cfg.judged(st.op) : true;
    if (index == force_judged_step) cur_judged = true;
    failed_cleanly = false;
    nt_flag = false;
    for (auto &t : touched) t = false;
    if (live_judged) *live_judged = (cur_judged || index >= crash_judged_from) ? 1 : 0;
    asim::set_step_index(index);
    asim::begin_step();
    if (st.op == "arm") {  // fault attached to the next step: its k-th allocation request is refused
        pending_arm = 1 + (long)((uint64_t)st.A(0) % 12);
        log.add("arm request " + std::to_string(pending_arm) + " of the next call");
        stats.steps++;
        return;
    }
    if (pending_arm) {
        static const char *faultable[] = {"parse", "print", "new_null", "new_true", "new_false", "new_bool", "new_number", "new_string", "new_raw", "new_array", "new_object", "new_strref", "new_arrref", "new_objref",
                                          "bulk_int", "bulk_float", "bulk_double", "bulk_string", "addh", "add_obj", "add_obj_cs", "add_obj_alias", "add_ref_arr", "add_ref_obj", "dup", "replace_key", "replace_key_alias", "set_valuestring"};
        bool ok = false;
        for (const char *f : faultable) if (st.op == f) ok = true;
        if (cfg.hist_faults && ok) { armed_step = index; arm_fail_k = pending_arm; }
        pending_arm = 0;
    }
    if ((cfg.fault_mode || cfg.hist_faults) && index == armed_step && arm_fail_k > 0) asim::arm_fail(arm_fail_k);
    stats.steps++;
    if (cur_judged) stats.judged_steps++; else stats.adopted_steps++;
    stats.op_counts[st.op]++;
    dispatch(st);
    asim::arm_fail(0);
    if (cfg.hist_faults && index == armed_step) {
        if (asim::fail_fired_in_step()) { stats.fault_counts["alloc_fail_in_history"]++; stats.fault_counts[cfg.hookcfg == HK_BOTH || cfg.hookcfg == HK_MALLOC_ONLY ? "alloc_fail_custom_malloc" : "alloc_fail_default_allocator"]++; }
        arm_fail_k = 0; armed_step = -1;
    }
    check_all(st.op.c_str());
}
void World::dispatch(const Step &st) {
    auto it = op_table().find(st.op);
    if (it == op_table().end()) { noop(st, "unknown op"); return; }
    it->second(*this, st);
}
void World::finish() {
    cur_step = -2;
    cur_judged = true;
    asim::begin_step();
    // roots that are still referenced are deleted after the roots holding the references
    for (int round = 0; round < NSLOTS + 1; round++) {
        bool any = false;
        for (int i = 0; i < NSLOTS; i++) {
            if (!slots[i] || slots[i]->frozen != 0) continue;
            cJSON *c = slots[i]->c;
            model_delete(slots[i]);
            slots[i] = nullptr;
            cJSON_Delete(c);
            any = true;
        }
        if (!any) break;
    }
    for (int i = 0; i < NSLOTS; i++) if (slots[i]) discard("model bookkeeping: a root is still frozen at the end of the history");
    if (cfg.shared_world) { log.add("finish"); return; }
    std::string v = asim::take_violation();
    if (!v.empty()) {
        if (cfg.judge_memory || cfg.judge_hooks) violation(cfg.judge_hooks ? "hooks-ledger" : "ledger", v + " [final delete]");
        // afail: the fault-free run of the same scenario was clean (otherwise it is not enumerated), so this is the failed call's doing
        if (ledger_judged_from_target) violation("ledger-after-failure", v + " [final delete of what the failed call left behind]");
        discard("ledger violation outside this property's oracles: " + v);
    }
    if (!pool().intact()) {
        if (cfg.judge_memory) violation("borrowed-memory", "caller-owned key/string memory was modified [final delete]");
        discard("borrowed memory modified");
    }
    if (asim::live_blocks() != base_live) {
        std::string d = "after deleting every remaining root " + std::to_string(asim::live_blocks() - base_live) + " block(s) are still allocated:" + asim::describe_live();
        if (cfg.judge_memory) violation("leak", d);
        // afail: only blocks the faulted call itself allocated are its leak (anything else leaked belongs to another call and property)
        if (cfg.fault_mode && !cfg.fault_mode_counting && asim::live_blocks_of_step(armed_step) > 0) violation("leak-after-failure", d);
        discard("leak outside this property's oracles: " + d);
    }
    log.add("finish: ledger balanced");
}
