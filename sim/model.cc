#include "model.h"
#include <climits>
#include <cmath>
#include <cstdio>
#include <cstdlib>
#include <cstring>
#include <algorithm>
#include <sys/mman.h>

// ---------------------------------------------------------------- pool
static const size_t POOL_CANARY = 16;
static char *g_pool_region = nullptr;
static const size_t POOL_REGION = 1 << 16;
void Pool::init() {
    if (!ptr.empty()) return;
    static const char *vals[] = {"ck", "CK", "name", "", "a", "A", "b", "key/with~", "a/b", "m~n", "0", "1",
                                 "long-constant-key-0123456789-abcdefghijklmnopqrstuvwxyz", "\xc3\xa9t\xc3\xa9", "q\"uote", "tab\there"};
    // one private mapping, read-only once it is filled: the library may read these bytes, never write them
    g_pool_region = (char *)mmap(nullptr, POOL_REGION, PROT_READ | PROT_WRITE, MAP_PRIVATE | MAP_ANONYMOUS, -1, 0);
    if (g_pool_region == (char *)MAP_FAILED) { perror("mmap pool"); abort(); }
    size_t used = 0;
    for (const char *v : vals) {
        size_t n = strlen(v);
        char *blk = g_pool_region + used;
        used += (POOL_CANARY * 2 + n + 1 + 15) & ~(size_t)15;
        memset(blk, 0x5C, POOL_CANARY);
        memcpy(blk + POOL_CANARY, v, n + 1);
        memset(blk + POOL_CANARY + n + 1, 0x5C, POOL_CANARY);
        ptr.push_back(blk + POOL_CANARY);
        val.push_back(std::string(v));
    }
    mprotect(g_pool_region, POOL_REGION, PROT_READ);
}
bool Pool::intact() const {
    for (size_t i = 0; i < ptr.size(); i++) {
        const char *p = ptr[i];
        size_t n = val[i].size();
        if (memcmp(p, val[i].c_str(), n + 1) != 0) return false;
        for (size_t k = 0; k < POOL_CANARY; k++) {
            if ((unsigned char)p[-1 - (long)k] != 0x5C) return false;
            if ((unsigned char)p[n + 1 + k] != 0x5C) return false;
        }
    }
    return true;
}
bool Pool::owns(const void *q) const {
    if (borrowed::contains(q)) return true;
    for (size_t i = 0; i < ptr.size(); i++) {
        const char *p = ptr[i] - POOL_CANARY;
        if ((const char *)q >= p && (const char *)q < p + POOL_CANARY * 2 + val[i].size() + 1) return true;
    }
    return false;
}
int Pool::find(const void *q) const {
    for (size_t i = 0; i < ptr.size(); i++) if (ptr[i] == q) return (int)i;
    return -1;
}
Pool &pool() { static Pool p; p.init(); return p; }

#if defined(__has_feature)
#if __has_feature(address_sanitizer)
extern "C" void __asan_poison_memory_region(void const volatile *addr, size_t size);
extern "C" void __asan_unpoison_memory_region(void const volatile *addr, size_t size);
#define BORROWED_POISON(a, n) __asan_poison_memory_region((a), (n))
#define BORROWED_UNPOISON(a, n) __asan_unpoison_memory_region((a), (n))
#endif
#endif
#ifndef BORROWED_POISON
#define BORROWED_POISON(a, n) ((void)0)
#define BORROWED_UNPOISON(a, n) ((void)0)
#endif
namespace borrowed {
static char *g_region = nullptr;
static const size_t REGION = (size_t)16 << 20;
static size_t g_used = 0, g_sealed_upto = 0;
static bool g_open = false;
static void init() {
    if (g_region) return;
    g_region = (char *)mmap(nullptr, REGION, PROT_READ, MAP_PRIVATE | MAP_ANONYMOUS | MAP_NORESERVE, -1, 0);
    if (g_region == (char *)MAP_FAILED) { perror("mmap borrowed"); abort(); }
}
void reset_run() {
    init();
    if (g_used) BORROWED_UNPOISON(g_region, (g_used + 7) & ~(size_t)7);
    if (g_used) {
        mprotect(g_region, (g_used + 4095) & ~(size_t)4095, PROT_READ | PROT_WRITE);
        if (g_used > (1u << 20)) madvise(g_region, g_used, MADV_DONTNEED);
        mprotect(g_region, (g_used + 4095) & ~(size_t)4095, PROT_READ);
    }
    g_used = 0; g_sealed_upto = 0; g_open = false;
}
void open() {
    init();
    g_open = true;
    g_sealed_upto = g_used & ~(size_t)4095;   // pages from here on become writable until seal()
    size_t room = REGION - g_sealed_upto;
    size_t span = room < ((size_t)1 << 20) ? room : ((size_t)1 << 20);
    mprotect(g_region + g_sealed_upto, span, PROT_READ | PROT_WRITE);
}
const char *put(const std::string &s) {
    if (!g_open) abort();
    size_t need = s.size() + 1;
    // the text ends flush against an 8-byte granule that is poisoned for the sanitizer: reading one byte beyond the
    // terminator of a lent text is reported (texts made by the parser have slack there, a caller's exact-size text has none)
    size_t start = ((g_used + need + 7) & ~(size_t)7) - need;
    size_t end = start + need;
    if (end + 8 > g_sealed_upto + ((size_t)1 << 20) || end + 8 > REGION) return nullptr;
    char *p = g_region + start;
    memcpy(p, s.c_str(), need);   // embedded zero bytes end the C string, as for any caller
    BORROWED_POISON(g_region + end, 8);
    g_used = end + 8;
    return p;
}
void seal() {
    if (!g_open) return;
    size_t room = REGION - g_sealed_upto;
    size_t span = room < ((size_t)1 << 20) ? room : ((size_t)1 << 20);
    mprotect(g_region + g_sealed_upto, span, PROT_READ);
    g_open = false;
}
bool contains(const void *p) {
    const char *q = (const char *)p;
    if (g_region && q >= g_region && q < g_region + REGION) return true;
    return g_pool_region && q >= g_pool_region && q < g_pool_region + POOL_REGION;
}
}  // namespace borrowed

// ---------------------------------------------------------------- basics
MVal *mv_new(int type) { MVal *m = new MVal(); m->type = type; return m; }
MVal *mv_num(double d) { MVal *m = mv_new(T_NUMBER); m->num = d; return m; }
MVal *mv_str(const std::string &s) { MVal *m = mv_new(T_STRING); m->str = s; return m; }
void mv_free(MVal *m) {
    if (!m) return;
    for (MVal *k : m->kids) mv_free(k);
    delete m;
}
int saturate_int(double d) {
    if (d != d) return 0;  // never compared: NaN is never passed through the number constructors
    if (d >= INT_MAX) return INT_MAX;
    if (d <= (double)INT_MIN) return INT_MIN;
    return (int)d;
}
MVal *mv_root(MVal *m) { while (m->parent) m = m->parent; return m; }
void mv_add_kid(MVal *c, MVal *x, size_t pos) {
    if (pos > c->kids.size()) pos = c->kids.size();
    c->kids.insert(c->kids.begin() + (long)pos, x);
    x->parent = c;
}
void mv_detach(MVal *x) {
    if (!x->parent) return;
    auto &v = x->parent->kids;
    v.erase(std::find(v.begin(), v.end(), x));
    x->parent = nullptr;
}
int view_type(const MVal *m) { return m->type; }
const std::string &view_str(const MVal *m) {
    if (m->refkind == R_ITEM && m->target) return view_str(m->target);
    if (m->refkind == R_STRPOOL) return pool().value(m->strpool);
    return m->str;
}
std::vector<const MVal *> view_kids(const MVal *m) {
    std::vector<const MVal *> out;
    if (m->refkind == R_ITEM && m->target) return view_kids(m->target);
    if (m->refkind == R_CHILD) {
        if (!m->target) return out;
        const MVal *t = m->target;
        if (!t->parent) { out.push_back(t); return out; }
        bool on = false;
        for (const MVal *k : t->parent->kids) { if (k == t) on = true; if (on) out.push_back(k); }
        return out;
    }
    for (const MVal *k : m->kids) out.push_back(k);
    return out;
}
void mv_collect(MVal *m, std::vector<MVal *> &out) {
    out.push_back(m);
    for (MVal *k : m->kids) mv_collect(k, out);
}
size_t mv_depth(const MVal *m) {
    size_t d = 0;
    for (const MVal *k : view_kids(m)) d = std::max(d, mv_depth(k));
    return d + 1;
}
MVal *mv_clone_value(const MVal *m) {
    MVal *n = mv_new(view_type(m));
    n->num = m->num;
    if (n->type == T_STRING || n->type == T_RAW) n->str = view_str(m);
    n->keystate = m->keystate;
    n->key = m->key;
    for (const MVal *k : view_kids(m)) { MVal *c = mv_clone_value(k); c->parent = n; n->kids.push_back(c); }
    return n;
}

static bool num_equal(double a, double b, const EqOpts &o) {
    if (a != a || b != b) return (a != a) && (b != b);
    if (a == b) return true;
    if (std::isinf(a) || std::isinf(b)) return false;
    if (o.rel_tol <= 0) return false;
    if (o.exact_int_below_1e15 && std::fabs(a) < 1e15 && a == std::floor(a)) return false;
    double mx = std::max(std::fabs(a), std::fabs(b));
    return std::fabs(a - b) <= mx * o.rel_tol;
}
bool mv_equal(const MVal *a, const MVal *b, const EqOpts &o, std::string *why) {
    auto fail = [&](const std::string &w) { if (why && why->empty()) *why = w; return false; };
    int ta = view_type(a), tb = view_type(b);
    if (o.nonfinite_is_null && ta == T_NUMBER && !std::isfinite(a->num)) {
        if (tb == T_NULL) return true;
        return fail("non-finite number vs " + mv_dump(b, 40));
    }
    if (ta != tb) return fail("type " + std::to_string(ta) + " vs " + std::to_string(tb) + " (" + mv_dump(a, 60) + " vs " + mv_dump(b, 60) + ")");
    switch (ta) {
        case T_NUMBER:
            if (!num_equal(a->num, b->num, o)) { char t[96]; snprintf(t, sizeof t, "number %.17g vs %.17g", a->num, b->num); return fail(t); }
            return true;
        case T_STRING:
        case T_RAW:
            if (view_str(a) != view_str(b)) return fail("string " + mv_dump(a, 80) + " vs " + mv_dump(b, 80));
            return true;
        case T_ARRAY: {
            auto ka = view_kids(a), kb = view_kids(b);
            if (ka.size() != kb.size()) return fail("array size " + std::to_string(ka.size()) + " vs " + std::to_string(kb.size()));
            for (size_t i = 0; i < ka.size(); i++) if (!mv_equal(ka[i], kb[i], o, why)) return false;
            return true;
        }
        case T_OBJECT: {
            auto ka = view_kids(a), kb = view_kids(b);
            if (ka.size() != kb.size()) return fail("object size " + std::to_string(ka.size()) + " vs " + std::to_string(kb.size()) + " (" + mv_dump(a, 100) + " vs " + mv_dump(b, 100) + ")");
            if (!o.obj_as_set) {
                for (size_t i = 0; i < ka.size(); i++) {
                    if (ka[i]->key != kb[i]->key) return fail("member key x" + ka[i]->key + " vs x" + kb[i]->key + " at " + std::to_string(i));
                    if (!mv_equal(ka[i], kb[i], o, why)) return false;
                }
                return true;
            }
            std::vector<bool> used(kb.size(), false);
            for (auto x : ka) {
                bool found = false;
                for (size_t j = 0; j < kb.size(); j++) {
                    if (used[j] || kb[j]->key != x->key) continue;
                    if (!mv_equal(x, kb[j], o, why)) return false;
                    used[j] = true; found = true; break;
                }
                if (!found) return fail("member '" + x->key + "' missing on the right (" + mv_dump(a, 100) + " vs " + mv_dump(b, 100) + ")");
            }
            return true;
        }
        default: return true;
    }
}
static void dump_bytes(const std::string &b, std::string &o) {
    o.push_back('"');
    for (unsigned char c : b) {
        char t[8];
        if (c == '"' || c == '\\') { o.push_back('\\'); o.push_back((char)c); }
        else if (c >= 32 && c < 127) o.push_back((char)c);
        else { snprintf(t, sizeof t, "\\x%02x", c); o += t; }
    }
    o.push_back('"');
}
static void dump_rec(const MVal *m, std::string &o, size_t maxlen, int depth) {
    if (o.size() > maxlen) return;
    if (depth > 64) { o += "<deep>"; return; }
    if (m->refkind) o += "&";
    switch (view_type(m)) {
        case T_INVALID: o += "<invalid>"; break;
        case T_NULL: o += "null"; break;
        case T_TRUE: o += "true"; break;
        case T_FALSE: o += "false"; break;
        case T_NUMBER: { char t[40]; snprintf(t, sizeof t, "%.17g", m->num); o += t; break; }
        case T_STRING: dump_bytes(view_str(m), o); break;
        case T_RAW: o += "raw:"; dump_bytes(view_str(m), o); break;
        case T_ARRAY:
        case T_OBJECT: {
            bool obj = view_type(m) == T_OBJECT;
            o.push_back(obj ? '{' : '[');
            bool first = true;
            for (const MVal *k : view_kids(m)) {
                if (!first) o.push_back(',');
                first = false;
                if (obj) {
                    if (k->keystate == K_UNKNOWN) o += "?";
                    else if (k->keystate == K_NONE) o += "<nokey>";
                    else dump_bytes(k->key, o);
                    o.push_back(':');
                }
                dump_rec(k, o, maxlen, depth + 1);
                if (o.size() > maxlen) break;
            }
            o.push_back(obj ? '}' : ']');
            break;
        }
        default: o += "<type" + std::to_string(m->type) + ">";
    }
}
std::string mv_dump(const MVal *m, size_t maxlen) {
    std::string o;
    if (!m) return "<none>";
    dump_rec(m, o, maxlen, 0);
    if (o.size() > maxlen) { o.resize(maxlen); o += "..."; }
    return o;
}
uint64_t mv_hash(const MVal *m, uint64_t h) {
    h = mix64(h, (uint64_t)view_type(m) | ((uint64_t)m->refkind << 8) | ((uint64_t)m->keystate << 12) | ((uint64_t)m->constkey << 16));
    if (m->type == T_NUMBER) { uint64_t b; memcpy(&b, &m->num, 8); h = mix64(h, b); }
    if (m->type == T_STRING || m->type == T_RAW) h = hash_str(view_str(m), h);
    if (m->keystate == K_KNOWN) h = hash_str(m->key, h ^ 0x55);
    for (const MVal *k : view_kids(m)) h = mv_hash(k, h);
    return mix64(h, 0xE0F);
}

// ---------------------------------------------------------------- structural walk
bool (*mv_block_live)(const void *) = nullptr;
bool mv_tolerate_dangling = false;
bool mv_lenient_valueint = false;
static bool dangling(const void *p) { return mv_block_live && p && !mv_block_live(p); }
static std::string nodepath(const MVal *m) {
    std::string p;
    while (m && m->parent) {
        size_t i = 0;
        for (; i < m->parent->kids.size(); i++) if (m->parent->kids[i] == m) break;
        p = "/" + std::to_string(i) + p;
        m = m->parent;
    }
    return p.empty() ? "<root>" : p;
}
bool walk_check(const cJSON *n, MVal *m, bool as_root, std::string &why) {
    auto fail = [&](const std::string &w) { why = "node " + nodepath(m) + ": " + w + " (model " + mv_dump(m, 80) + ")"; return false; };
    if (!n) return fail("library node is NULL");
    if (m->c && m->c != n) return fail("node identity changed: the model's node is no longer at this position");
    m->c = const_cast<cJSON *>(n);
    if ((n->type & 0xFF) != m->type) return fail("type is " + std::to_string(n->type & 0xFF) + ", model says " + std::to_string(m->type));
    if (((n->type & cJSON_IsReference) != 0) != (m->refkind != R_NONE)) return fail(std::string("reference bit is ") + ((n->type & cJSON_IsReference) ? "set" : "clear"));
    if (n->type & ~(0xFF | cJSON_IsReference | cJSON_StringIsConst)) return fail("unknown type bits set");
    if (as_root && (n->next || n->prev)) return fail("root/detached item has sibling links");
    if (m->keystate == K_NONE) {
        if (n->string) return fail("has a key, model says none");
    } else if (m->keystate == K_KNOWN) {
        if (!n->string) return fail("key is NULL, model says '" + m->key + "'");
        if (!(n->type & cJSON_StringIsConst) && !pool().owns(n->string) && dangling(n->string)) {
            if (mv_tolerate_dangling) goto key_done;
            return fail("owned key points at memory that is not a live block of the allocator (released?)");
        }
        // memory-judging properties: a key the library treats as constant although it is neither the caller's key memory nor a live
        // block is not read either (the library borrowed something that was released since)
        if (mv_tolerate_dangling && (n->type & cJSON_StringIsConst) && !pool().owns(n->string) && dangling(n->string)) goto key_done;
        if (m->key != n->string) return fail(std::string("key is '") + n->string + "', model says '" + m->key + "'");
        if (((n->type & cJSON_StringIsConst) != 0) != m->constkey) {
            if (mv_tolerate_dangling) {
                // who owns the key is what these properties decide through the ledger and the sanitizer: follow the library's
                // own bookkeeping instead of ending the run here
                m->constkey = (n->type & cJSON_StringIsConst) != 0;
                m->keypool = m->constkey ? pool().find(n->string) : -1;
                goto key_done;
            }
            return fail(std::string("constant-key bit is ") + ((n->type & cJSON_StringIsConst) ? "set" : "clear"));
        }
        if (!mv_tolerate_dangling) {
            if (m->constkey && (m->keypool < 0 ? !pool().owns(n->string) : n->string != pool().get(m->keypool))) return fail("constant key does not point at the caller's key memory");
            if (!m->constkey && pool().owns(n->string)) return fail("owned key points into caller memory");
        }
    }
key_done:
    if (m->type == T_NUMBER) {
        bool same = (n->valuedouble == m->num) || (n->valuedouble != n->valuedouble && m->num != m->num);
        if (!same) { char t[96]; snprintf(t, sizeof t, "valuedouble is %.17g, model says %.17g", n->valuedouble, m->num); return fail(t); }
        if (!mv_lenient_valueint && m->num == m->num && n->valueint != saturate_int(m->num)) { char t[96]; snprintf(t, sizeof t, "valueint is %d, model says %d", n->valueint, saturate_int(m->num)); return fail(t); }
    }
    if (m->refkind == R_NONE) {
        if (m->type == T_STRING || m->type == T_RAW) {
            if (!n->valuestring) return fail("valuestring is NULL");
            if (!pool().owns(n->valuestring) && dangling(n->valuestring)) {
                if (mv_tolerate_dangling) return true;
                return fail("valuestring points at memory that is not a live block of the allocator (released?)");
            }
            if (m->str != n->valuestring) return fail(std::string("string is '") + n->valuestring + "'");
            if (pool().owns(n->valuestring)) return fail("owned string points into caller memory");
        }
        if (!m->is_container()) {
            if (n->child) return fail("non-container has a child pointer");
            return true;
        }
        const cJSON *c = n->child;
        const cJSON *prev = nullptr;
        size_t i = 0;
        for (; i < m->kids.size(); i++) {
            if (!c) return fail("container has " + std::to_string(i) + " items, model says " + std::to_string(m->kids.size()));
            if (i > 0 && c->prev != prev) return fail("backward link of item " + std::to_string(i) + " does not mirror the forward link");
            prev = c;
            c = c->next;
        }
        if (c) return fail("container has more than " + std::to_string(m->kids.size()) + " items (forward chain does not end)");
        if (!m->kids.empty() && n->child->prev != prev) return fail(n->child->prev ? "first child's backward link does not designate the last child" : "first child's backward link is NULL (tail link lost)");
        c = n->child;
        for (i = 0; i < m->kids.size(); i++) {
            if (!walk_check(c, m->kids[i], false, why)) return false;
            c = c->next;
        }
        return true;
    }
    // reference nodes: borrowed memory must be the very memory of the target
    if (m->refkind == R_STRPOOL) {
        if (n->valuestring != pool().get(m->strpool)) return fail("string reference does not point at the caller's string");
        if (n->child) return fail("string reference has a child");
        return true;
    }
    if (m->refkind == R_ITEM) {
        if (!m->target || !m->target->c) return true;
        if (n->child != m->target->c->child) return fail("reference node's child pointer differs from the referenced item's");
        if (n->valuestring != m->target->c->valuestring) return fail("reference node's string pointer differs from the referenced item's");
        return true;
    }
    if (m->refkind == R_CHILD) {
        if (n->child != (m->target ? m->target->c : nullptr)) return fail("array/object reference does not point at the referenced child");
        return true;
    }
    return true;
}
bool struct_wellformed(const cJSON *n, bool as_root, size_t &budget, size_t depth, std::string &why) {
    if (!n) { why = "NULL node"; return false; }
    if (budget == 0) { why = "structure larger than the walk budget (cyclic?)"; return false; }
    budget--;
    if (depth > 20000) { why = "deeper than 20000"; return false; }
    if (as_root && (n->next || n->prev)) { why = "root has sibling links"; return false; }
    int t = n->type & 0xFF;
    if (t != T_FALSE && t != T_TRUE && t != T_NULL && t != T_NUMBER && t != T_STRING && t != T_ARRAY && t != T_OBJECT && t != T_RAW && t != T_INVALID) { why = "invalid type bits " + std::to_string(n->type); return false; }
    if ((t == T_STRING || t == T_RAW) && !n->valuestring) { why = "string without valuestring"; return false; }
    if (n->type & cJSON_IsReference) return true;
    if (t != T_ARRAY && t != T_OBJECT) {
        if (n->child) { why = "non-container with child"; return false; }
        return true;
    }
    const cJSON *c = n->child, *prev = nullptr;
    while (c) {
        if (prev && c->prev != prev) { why = "backward link does not mirror forward link"; return false; }
        if (t == T_OBJECT && !c->string) { /* keyless member: printable as "" */ }
        if (!struct_wellformed(c, false, budget, depth + 1, why)) return false;
        prev = c;
        c = c->next;
    }
    if (n->child && n->child->prev != prev) { why = n->child->prev ? "first child's backward link does not designate the last child" : "first child's backward link is NULL"; return false; }
    return true;
}
MVal *read_struct(const cJSON *n, size_t &budget, size_t depth, std::string &why, bool bind) {
    if (!n) { why = "NULL node"; return nullptr; }
    if (budget == 0) { why = "structure larger than the walk budget (cyclic?)"; return nullptr; }
    budget--;
    if (depth > 20000) { why = "deeper than 20000"; return nullptr; }
    MVal *m = mv_new(n->type & 0xFF);
    if (bind) m->c = const_cast<cJSON *>(n);
    m->num = n->valuedouble;
    if (m->type == T_STRING || m->type == T_RAW) {
        if (!n->valuestring) { why = "string without valuestring"; delete m; return nullptr; }
        if (!(n->type & cJSON_IsReference) && !pool().owns(n->valuestring) && dangling(n->valuestring)) { why = "valuestring points at released memory"; delete m; return nullptr; }
        m->str = n->valuestring;
    }
    if (n->string && !(n->type & cJSON_StringIsConst) && !pool().owns(n->string) && dangling(n->string)) { why = "key points at released memory"; delete m; return nullptr; }
    if (n->string) { m->keystate = K_KNOWN; m->key = n->string; m->constkey = (n->type & cJSON_StringIsConst) != 0; m->keypool = m->constkey ? pool().find(n->string) : -1; }
    if (m->type == T_ARRAY || m->type == T_OBJECT) {
        for (const cJSON *c = n->child; c; c = c->next) {
            MVal *k = read_struct(c, budget, depth + 1, why, bind && !(n->type & cJSON_IsReference));
            if (!k) { mv_free(m); return nullptr; }
            k->parent = m;
            m->kids.push_back(k);
        }
    }
    return m;
}

// ---------------------------------------------------------------- generation
double gen_number(Rng &r, bool allow_nonfinite, bool plain) {
    if (plain) {
        if (r.chance(1, 5)) {  // tiny magnitudes: distinct values still differ by a factor, never by an epsilon
            static const double scale[] = {1e-20, 1e-300, 1e-17, 5e-324, 1e-9};
            return (double)r.range(-4, 4) * scale[r.below(5)];
        }
        if (r.chance(1, 14)) {  // whole numbers beyond the int range (pairwise different by far more than an epsilon; x2, x3, x0.5 stay beyond it)
            static const double big[] = {3000000000.0, 10000000000.0, 20000000000.0, -3000000000.0, -10000000000.0, 4294967296.0, 1099511627776.0,
                                         4503599627370496.0, -4503599627370496.0, 6000000000.0, -6000000000.0};
            return big[r.below(11)];
        }
        if (r.chance(1, 24)) {  // the ends of the int range and of the 64-bit types
            static const double edge[] = {2147483648.0, 2147483647.0, -2147483648.0, -2147483647.0, -2147483649.0, 9223372036854775808.0, -9223372036854775808.0, 18446744073709551616.0};
            return edge[r.below(8)];
        }
        if (r.chance(1, 24)) {  // magnitudes whose sum or product overflows a double
            static const double huge[] = {1e308, 1.5e308, 1.25e308, 9e307, -1.2e308, -9e307, 1.7976931348623157e308, -1.7976931348623157e308};
            return huge[r.below(8)];
        }
        switch (r.below(4)) {
            case 0: return (double)r.range(-20, 20);
            case 1: return (double)r.range(-100000, 100000);
            case 2: return (double)r.range(-2000, 2000) / 8.0;
            default: return (double)r.range(-50, 50) * 1000.5;
        }
    }
    switch (r.below(16)) {
        case 0: return (double)r.range(-10, 10);
        case 1: return (double)r.range(-100000, 100000);
        case 2: { static const double b[] = {2147483647.0, 2147483648.0, -2147483648.0, -2147483649.0, 2147483646.0, 4294967296.0, 2147483647.5, -2147483648.5,
                                              -2147483647.0, -2147483647.5, -2147483646.0, 2147483646.5, 2147483648.5, -2147483647.25, 3000000000.0, -3000000000.0}; return b[r.below(16)]; }
        case 3: {
            if (r.chance(1, 3)) {  // the ends of the 32/64-bit integer types as doubles, and their neighbours
                static const double p2[] = {9223372036854775808.0, 9223372036854774784.0, 9223372036854777856.0, 18446744073709551616.0, 18446744073709549568.0,
                                            4294967296.0, 4294967295.0, 4294967297.0, 9007199254740992.0, 2147483648.0, 65536.0, 32768.0};
                return (r.chance(1, 2) ? 1 : -1) * p2[r.below(12)];
            }
            double base = 1e15; return (r.chance(1, 2) ? 1 : -1) * (base + (double)r.range(-3, 3));
        }
        case 4: { static const double b[] = {999999999999999.0, 1e15, 1000000000000001.0, 9007199254740991.0, 9007199254740992.0, 9007199254740993.0, 123456789012345.0, 99999999999999.98}; return (r.chance(1, 2) ? 1 : -1) * b[r.below(8)]; }
        case 5: return std::pow(10.0, (double)r.range(-320, 308));
        case 6: { static const double b[] = {0.1, 0.2, 0.3, 0.1 + 0.2, 1.5, 2.5e-7, 1.0 / 3.0, 2.0 / 3.0, 3.14159, 1e21, 1e-5, 123.456, 0.30000000000000004, 5e-324, 2.2250738585072014e-308, 4.9406564584124654e-324}; return (r.chance(1, 4) ? -1 : 1) * b[r.below(16)]; }
        case 7: { static const double b[] = {1.7976931348623157e308, 1.797693134862315e308, 1.7976931348623155e308, 8.98846567431158e307, 1e308, 1.79769313486231e308}; return (r.chance(1, 4) ? -1 : 1) * b[r.below(6)]; }
        case 8: return r.chance(1, 2) ? 0.0 : -0.0;
        case 9: if (allow_nonfinite) { static const double b[] = {INFINITY, -INFINITY, NAN}; return b[r.below(3)]; } return (double)r.range(-3, 3);
        case 10: { // subnormals
            uint64_t bits = r.next() & 0x000FFFFFFFFFFFFFull; if (r.chance(1, 2)) bits |= 0x8000000000000000ull; double d; memcpy(&d, &bits, 8); return d; }
        case 11: return (double)r.range(-1000000, 1000000) / 1000.0;
        case 12: return r.chance(1, 2) ? (double)(int64_t)r.next() : (r.chance(1, 4) ? -1.0 : 1.0) * (1e16 + (double)r.below(90000000000000000ull));  // incl. 17-digit integers
        default: {
            for (;;) { uint64_t bits = r.next(); double d; memcpy(&d, &bits, 8); if (std::isfinite(d)) return d; }
        }
    }
}
static void put_utf8(std::string &s, uint32_t cp) {
    if (cp < 0x80) s.push_back((char)cp);
    else if (cp < 0x800) { s.push_back((char)(0xC0 | (cp >> 6))); s.push_back((char)(0x80 | (cp & 0x3F))); }
    else if (cp < 0x10000) { s.push_back((char)(0xE0 | (cp >> 12))); s.push_back((char)(0x80 | ((cp >> 6) & 0x3F))); s.push_back((char)(0x80 | (cp & 0x3F))); }
    else { s.push_back((char)(0xF0 | (cp >> 18))); s.push_back((char)(0x80 | ((cp >> 12) & 0x3F))); s.push_back((char)(0x80 | ((cp >> 6) & 0x3F))); s.push_back((char)(0x80 | (cp & 0x3F))); }
}
std::string gen_string(Rng &r, bool valid_utf8, bool ascii_only, size_t maxlen) {
    std::string s;
    size_t n;
    if (r.chance(1, 12)) {
        // long strings: any length in 200..600, or a length next to a power of two (the sizes a fixed scratch buffer could have)
        static const int base[] = {16, 32, 64, 128, 256, 512, 1024, 4096};
        n = r.chance(1, 2) ? (size_t)r.range(200, 600) : (size_t)(base[r.below(8)] + 2 - (int)r.below(6));
    } else n = (size_t)r.below(maxlen + 1);
    if (r.chance(1, 10)) n = 0;
    for (size_t i = 0; i < n; i++) {
        switch (r.below(ascii_only ? 3 : 10)) {
            case 0: case 1: case 5: case 6: s.push_back((char)r.range('a', 'z')); break;
            case 2: { static const char sp[] = "\"\\/ \t\n\r\b\f{}[]:,~0123-"; s.push_back(sp[r.below(sizeof sp - 1)]); break; }
            case 3: s.push_back((char)r.range(1, 31)); break;
            case 4: s.push_back((char)r.range(32, 126)); break;
            case 7: { static const uint32_t cps[] = {0x80, 0xE9, 0x7FF, 0x800, 0x20AC, 0xFFFD, 0xD7FF, 0xE000, 0xFFFF, 0x10000, 0x1F600, 0x10FFFF, 0x7F}; put_utf8(s, cps[r.below(13)]); break; }
            case 8: { uint32_t cp = (uint32_t)r.range(0x80, 0x10FFFF); if (cp >= 0xD800 && cp <= 0xDFFF) cp = 0x2603; put_utf8(s, cp); break; }
            default:
                if (valid_utf8) s.push_back((char)r.range(32, 126));
                else s.push_back((char)r.range(0x80, 0xFF));  // invalid / stray UTF-8 bytes
        }
    }
    return s;
}
// long keys: lengths sweep across the sizes a fixed scratch buffer could have (powers of two); the body is one letter in
// random case, so that two long keys of an object agree - after case folding - in a long prefix and differ only near the end
std::string gen_longkey(Rng &r, bool pointer_chars) {
    static const int base[] = {16, 32, 64, 128, 256, 512, 1024};
    size_t len = r.chance(1, 2) ? (size_t)(base[r.below(7)] + 2 - (int)r.below(16)) : (size_t)r.range(1, 300);
    char c = r.chance(3, 4) ? 'k' : (char)('a' + r.below(26));
    bool mixed = r.chance(1, 2);
    std::string k(len, c);
    if (mixed) for (auto &ch : k) if (r.chance(1, 2)) ch = (char)(ch - 32);
    size_t tail = (size_t)r.range(0, 3);
    for (size_t i = 0; i < tail && i < len; i++) k[len - 1 - i] = "abAB01zZ"[r.below(8)];
    if (pointer_chars && r.chance(1, 4)) k[r.below(len)] = r.chance(1, 2) ? '/' : '~';
    return k;
}
std::string gen_key(Rng &r, const GenOpts &o) {
    if (r.chance(1, 24)) return gen_longkey(r, o.pointer_keys);
    if (o.case_keys) {
        static const char *ks[] = {"a", "A", "b", "B", "c", "C", "d", "aa", "aA", "Ab"};
        return ks[r.below(10)];
    }
    if (o.pointer_keys) {
        static const char *ks[] = {"a", "b", "A", "", "/", "~", "a/b", "m~n", "0", "1", "-", "~0", "~1", "01", "a~1", "/~", "x", "foo", "10", "B"};
        if (!r.chance(1, 8)) return ks[r.below(20)];
    } else {
        static const char *ks[] = {"a", "b", "c", "A", "B", "ab", "aB", "Ab", "", "k1", "k2", "name", "Name", "z", "zz"};
        if (!r.chance(1, 6)) return ks[r.below(15)];
    }
    return gen_string(r, o.valid_utf8, o.ascii_strings, 6);
}
static std::string fold(const std::string &s) {
    std::string o = s;
    for (auto &c : o) if (c >= 'A' && c <= 'Z') c = (char)(c - 'A' + 'a');
    return o;
}
MVal *gen_value(Rng &r, const GenOpts &o, int depth) {
    bool scalar = depth >= o.max_depth || (depth > 0 && r.chance((unsigned)o.scalar_bias, 100));
    if (depth == 0 && r.chance(1, 6)) scalar = true;
    if (scalar) {
        switch (r.below(o.allow_raw ? 8 : 7)) {
            case 0: if (o.allow_null) return mv_new(T_NULL); return mv_new(T_TRUE);
            case 1: return mv_new(T_TRUE);
            case 2: return mv_new(T_FALSE);
            case 3: case 4: return mv_num(gen_number(r, o.allow_nonfinite, o.plain_numbers));
            case 5: case 6: return mv_str(gen_string(r, o.valid_utf8, o.ascii_strings));
            default: { MVal *m = mv_new(T_RAW); m->str = r.chance(1, 2) ? "[1,2]" : "raw text"; return m; }
        }
    }
    bool obj = r.chance(1, 2);
    MVal *m = mv_new(obj ? T_OBJECT : T_ARRAY);
    size_t n = (size_t)r.below((uint64_t)o.max_kids + 1);
    if (r.chance(1, 30)) n += (size_t)r.below(30);
    else if (depth <= 1 && r.chance(1, (unsigned)o.wide_den)) n = 33 + (size_t)r.below(r.chance(1, 4) ? 100 : 36);   // wide containers: beyond the sizes (32, 64, 128) a threshold could sit at
    for (size_t i = 0; i < n; i++) {
        MVal *k = gen_value(r, o, depth + 1);
        if (obj) {
            std::string key;
            for (int tries = 0; tries < 20; tries++) {
                key = gen_key(r, o);
                bool clash = false;
                if (o.distinct_keys)
                    for (MVal *e : m->kids) if (e->key == key || (o.fold_distinct && fold(e->key) == fold(key))) clash = true;
                if (!clash) break;
                key = "u" + std::to_string(i) + "_" + std::to_string(tries);
            }
            if (o.distinct_keys) { bool clash = false; for (MVal *e : m->kids) if (e->key == key) clash = true; if (clash) key = "uniq" + std::to_string(i); }
            k->keystate = K_KNOWN;
            k->key = key;
        }
        k->parent = m;
        m->kids.push_back(k);
    }
    return m;
}
