#include "refrfc.h"
#include <algorithm>
#include <cmath>

bool ptr_split(const std::string &ptr, std::vector<std::string> &tokens) {
    tokens.clear();
    if (ptr.empty()) return true;
    if (ptr[0] != '/') return false;
    std::string cur;
    for (size_t i = 1; i <= ptr.size(); i++) {
        if (i == ptr.size() || ptr[i] == '/') { tokens.push_back(cur); cur.clear(); continue; }
        if (ptr[i] == '~') {
            if (i + 1 < ptr.size() && ptr[i + 1] == '0') { cur.push_back('~'); i++; }
            else if (i + 1 < ptr.size() && ptr[i + 1] == '1') { cur.push_back('/'); i++; }
            else return false;
            continue;
        }
        cur.push_back(ptr[i]);
    }
    return true;
}
std::string ptr_escape(const std::string &t) {
    std::string o;
    for (char c : t) { if (c == '~') o += "~0"; else if (c == '/') o += "~1"; else o.push_back(c); }
    return o;
}
static bool array_index(const std::string &tok, size_t &idx) {
    if (tok.empty()) return false;
    if (tok.size() > 1 && tok[0] == '0') return false;
    if (tok.size() > 9) return false;
    size_t v = 0;
    for (char c : tok) { if (c < '0' || c > '9') return false; v = v * 10 + (size_t)(c - '0'); }
    idx = v;
    return true;
}
static MVal *step_into(MVal *cur, const std::string &tok) {
    if (cur->type == T_OBJECT) {
        for (MVal *k : cur->kids) if (k->key == tok) return k;
        return nullptr;
    }
    if (cur->type == T_ARRAY) {
        size_t idx;
        if (!array_index(tok, idx) || idx >= cur->kids.size()) return nullptr;
        return cur->kids[idx];
    }
    return nullptr;
}
static MVal *resolve_tokens(MVal *doc, const std::vector<std::string> &toks, size_t count) {
    MVal *cur = doc;
    for (size_t i = 0; i < count && cur; i++) cur = step_into(cur, toks[i]);
    return cur;
}
MVal *ptr_resolve(MVal *doc, const std::string &ptr) {
    std::vector<std::string> toks;
    if (!ptr_split(ptr, toks)) return nullptr;
    return resolve_tokens(doc, toks, toks.size());
}
void ptr_enumerate(MVal *doc, std::vector<std::pair<std::string, MVal *>> &out, const std::string &prefix) {
    out.push_back({prefix, doc});
    if (doc->type == T_ARRAY) {
        for (size_t i = 0; i < doc->kids.size(); i++) ptr_enumerate(doc->kids[i], out, prefix + "/" + std::to_string(i));
    } else if (doc->type == T_OBJECT) {
        for (MVal *k : doc->kids) ptr_enumerate(k, out, prefix + "/" + ptr_escape(k->key));
    }
}
bool rfc_number_tolerant = false;
static bool number_equal(double a, double b) {
    if (a == b) return true;
    if (!rfc_number_tolerant) return false;
    double m = std::fabs(a) > std::fabs(b) ? std::fabs(a) : std::fabs(b);
    return std::fabs(a - b) <= m * 2.220446049250313e-16;
}
bool rfc_equal(const MVal *a, const MVal *b) {
    if (a->type != b->type) return false;
    switch (a->type) {
        case T_NUMBER: return number_equal(a->num, b->num);
        case T_STRING: return a->str == b->str;
        case T_ARRAY:
            if (a->kids.size() != b->kids.size()) return false;
            for (size_t i = 0; i < a->kids.size(); i++) if (!rfc_equal(a->kids[i], b->kids[i])) return false;
            return true;
        case T_OBJECT:
            if (a->kids.size() != b->kids.size()) return false;
            for (const MVal *x : a->kids) {
                const MVal *y = nullptr;
                for (const MVal *c : b->kids) if (c->key == x->key) { y = c; break; }
                if (!y || !rfc_equal(x, y)) return false;
            }
            return true;
        default: return true;
    }
}
static const MVal *member(const MVal *obj, const char *name) {
    if (obj->type != T_OBJECT) return nullptr;
    for (const MVal *k : obj->kids) if (k->key == name) return k;
    return nullptr;
}
static void set_key(MVal *v, bool has, const std::string &k) { v->keystate = has ? K_KNOWN : K_NONE; v->key = has ? k : std::string(); }

static bool do_add(MVal **doc, const std::vector<std::string> &toks, MVal *value, std::string &why) {
    if (toks.empty()) { mv_free(*doc); set_key(value, false, ""); value->parent = nullptr; *doc = value; return true; }
    MVal *parent = resolve_tokens(*doc, toks, toks.size() - 1);
    if (!parent) { why = "add: parent does not exist"; mv_free(value); return false; }
    const std::string &last = toks.back();
    if (parent->type == T_OBJECT) {
        for (size_t i = 0; i < parent->kids.size(); i++)
            if (parent->kids[i]->key == last) {
                mv_free(parent->kids[i]);
                set_key(value, true, last);
                value->parent = parent;
                parent->kids[i] = value;
                return true;
            }
        set_key(value, true, last);
        mv_add_kid(parent, value, parent->kids.size());
        return true;
    }
    if (parent->type == T_ARRAY) {
        size_t idx;
        if (last == "-") idx = parent->kids.size();
        else if (!array_index(last, idx)) { why = "add: invalid array index"; mv_free(value); return false; }
        if (idx > parent->kids.size()) { why = "add: index out of range"; mv_free(value); return false; }
        set_key(value, false, "");
        mv_add_kid(parent, value, idx);
        return true;
    }
    why = "add: parent is not a container";
    mv_free(value);
    return false;
}
static MVal *do_remove(MVal **doc, const std::vector<std::string> &toks, std::string &why) {
    if (toks.empty()) { why = "remove of the whole document"; return nullptr; }
    MVal *t = resolve_tokens(*doc, toks, toks.size());
    if (!t) { why = "target does not exist"; return nullptr; }
    mv_detach(t);
    return t;
}
bool rfc6902_apply_op(MVal **doc, const MVal *op, std::string &why) {
    if (op->type != T_OBJECT) { why = "operation is not an object"; return false; }
    const MVal *o = member(op, "op"), *path = member(op, "path");
    if (!o || o->type != T_STRING) { why = "missing or non-string op"; return false; }
    if (!path || path->type != T_STRING) { why = "missing or non-string path"; return false; }
    std::vector<std::string> toks;
    if (!ptr_split(path->str, toks)) { why = "invalid path pointer"; return false; }
    const std::string &name = o->str;
    if (name == "add" || name == "replace" || name == "test") {
        const MVal *value = member(op, "value");
        if (!value) { why = "missing value"; return false; }
        if (name == "test") {
            MVal *t = resolve_tokens(*doc, toks, toks.size());
            if (!t) { why = "test: target does not exist"; return false; }
            if (!rfc_equal(t, value)) { why = "test: values differ"; return false; }
            return true;
        }
        if (name == "replace") {
            MVal *t = resolve_tokens(*doc, toks, toks.size());
            if (!t) { why = "replace: target does not exist"; return false; }
            MVal *v = mv_clone_value(value);
            if (!t->parent) { mv_free(*doc); set_key(v, false, ""); *doc = v; return true; }
            MVal *p = t->parent;
            size_t i = (size_t)(std::find(p->kids.begin(), p->kids.end(), t) - p->kids.begin());
            set_key(v, t->keystate == K_KNOWN, t->key);
            v->parent = p;
            p->kids[i] = v;
            mv_free(t);
            return true;
        }
        return do_add(doc, toks, mv_clone_value(value), why);
    }
    if (name == "remove") {
        MVal *t = do_remove(doc, toks, why);
        if (!t) return false;
        mv_free(t);
        return true;
    }
    if (name == "move" || name == "copy") {
        const MVal *from = member(op, "from");
        if (!from || from->type != T_STRING) { why = "missing or non-string from"; return false; }
        std::vector<std::string> ftoks;
        if (!ptr_split(from->str, ftoks)) { why = "invalid from pointer"; return false; }
        if (name == "copy") {
            MVal *src = resolve_tokens(*doc, ftoks, ftoks.size());
            if (!src) { why = "copy: from does not exist"; return false; }
            return do_add(doc, toks, mv_clone_value(src), why);
        }
        // move: from must not be a proper prefix of path
        if (ftoks.size() < toks.size() && std::equal(ftoks.begin(), ftoks.end(), toks.begin())) { why = "move: into own child"; return false; }
        MVal *src = resolve_tokens(*doc, ftoks, ftoks.size());
        if (!src) { why = "move: from does not exist"; return false; }
        if (ftoks == toks) return true;
        if (ftoks.empty()) { why = "move: of the whole document"; return false; }
        mv_detach(src);
        return do_add(doc, toks, src, why);
    }
    why = "unknown op";
    return false;
}
bool rfc6902_apply(MVal **doc, const MVal *patch, std::string &why) {
    if (patch->type != T_ARRAY) { why = "patch is not an array"; return false; }
    for (const MVal *op : patch->kids) if (!rfc6902_apply_op(doc, op, why)) return false;
    return true;
}
MVal *rfc7396_merge(MVal *target, const MVal *patch) {
    if (patch->type != T_OBJECT) {
        mv_free(target);
        MVal *v = mv_clone_value(patch);
        v->keystate = K_NONE; v->key.clear();
        return v;
    }
    if (!target || target->type != T_OBJECT) { mv_free(target); target = mv_new(T_OBJECT); }
    for (const MVal *pk : patch->kids) {
        MVal *existing = nullptr;
        size_t at = 0;
        for (size_t i = 0; i < target->kids.size(); i++) if (target->kids[i]->key == pk->key) { existing = target->kids[i]; at = i; break; }
        if (pk->type == T_NULL) {
            if (existing) { target->kids.erase(target->kids.begin() + (long)at); mv_free(existing); }
            continue;
        }
        if (existing) { target->kids.erase(target->kids.begin() + (long)at); existing->parent = nullptr; }
        MVal *merged = rfc7396_merge(existing, pk);
        merged->keystate = K_KNOWN; merged->key = pk->key;
        mv_add_kid(target, merged, target->kids.size());
    }
    return target;
}
