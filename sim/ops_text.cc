// Parse / print ops and the judged print oracles of C04 (round trip), C05
// (strict JSON), C09 (caller buffer).
#include <cfloat>
#include <climits>
#include <cmath>
#include <cstring>
#include "guard.h"
#include "profiles.h"
#include "refjson.h"
#include "world.h"

static std::string I(int64_t v) { return std::to_string(v); }
static std::string B(bool b) { return b ? "true" : "false"; }
int world_profile(const World &w);  // main.cc: the plan's "profile" knob for this world

struct TextGuard {  // releases printed text through cJSON_free
    char *p;
    explicit TextGuard(char *x) : p(x) {}
    ~TextGuard() { if (p) cJSON_free(p); }
    TextGuard(const TextGuard &) = delete;
};

static bool domain_printable(const MVal *m, bool need_finite, bool need_utf8, bool allow_raw, size_t depth, std::string &why) {
    if (depth > CJSON_NESTING_LIMIT) { why = "deeper than the nesting limit"; return false; }
    switch (view_type(m)) {
        case T_NULL: case T_TRUE: case T_FALSE: return true;
        case T_NUMBER: if (need_finite && !std::isfinite(m->num)) { why = "non-finite number"; return false; } return true;
        case T_STRING: if (need_utf8 && !valid_utf8(view_str(m))) { why = "string is not valid UTF-8"; return false; } return true;
        case T_RAW: if (!allow_raw) { why = "raw item"; return false; } return true;
        case T_ARRAY: case T_OBJECT:
            // a container at depth d is the (d+1)-th nested container of the text: more than CJSON_NESTING_LIMIT of them cannot be
            // parsed back (and the strict reference reader, which recurses, stops there too), whether or not the innermost is empty
            if (depth + 1 > CJSON_NESTING_LIMIT) { why = "more nested containers than the nesting limit"; return false; }
            for (const MVal *k : view_kids(m)) {
                if (view_type(m) == T_OBJECT) {
                    if (k->keystate != K_KNOWN) { why = "object member without a known key"; return false; }
                    if (need_utf8 && !valid_utf8(k->key)) { why = "key is not valid UTF-8"; return false; }
                }
                if (!domain_printable(k, need_finite, need_utf8, allow_raw, depth + 1, why)) return false;
            }
            return true;
        default: why = "invalid item"; return false;
    }
}

// ------------------------------------------------------------------ parse (stage-setting in hist; the faulted call in afail)
DEFOP(parse) {
    int slot = w.free_slot();
    if (slot < 0) { w.noop(st, "no free slot"); return; }
    Rng vr((uint64_t)st.A(0)), sr((uint64_t)st.A(1));
    GenOpts go = profile_opts(world_profile(w));
    go.allow_raw = false; go.allow_nonfinite = false;
    if (w.wide) go.wide_den = 5;
    MVal *v = gen_value(vr, go);
    SpellOpts so; so.bom = sr.chance(1, 10); so.ws = (int)sr.below(3); so.escapes = sr.chance(2, 3); so.numspell = sr.chance(2, 3);
    std::string text = serialize_value(v, sr, so);
    int entry = (int)((uint64_t)st.A(2) % 4);
    int flags = (int)(st.A(3) & 7);
    bool req = flags & 1, wantend = flags & 2, term = (flags & 4) || req || entry < 2;
    std::string bytes = text;
    if (term) bytes.push_back('\0');
    InputView in = present_input(bytes, true);
    const char *end = nullptr;
    cJSON *r = nullptr;
    switch (entry) {
        case 0: r = cJSON_Parse(in.ptr); break;
        case 1: r = cJSON_ParseWithOpts(in.ptr, wantend ? &end : nullptr, req); break;
        case 2: r = cJSON_ParseWithLength(in.ptr, in.n); break;
        default: r = cJSON_ParseWithLengthOpts(in.ptr, in.n, wantend ? &end : nullptr, req); break;
    }
    release_input(in);
    if (w.tolerate_failure(r == nullptr)) { mv_free(v); return; }
    if (!r) { std::string d = mv_dump(v, 80); mv_free(v); w.mismatch("parse", "valid text was rejected: " + show_bytes(text, 120) + " denoting " + d); return; }
    v->c = r;
    w.slots[slot] = v;  // inner nodes are bound and compared by the structural walk after the step
    w.log.add("parse entry " + I(entry) + " flags " + I(flags) + " len " + I((int64_t)text.size()) + " -> s" + I(slot) + " " + mv_dump(v, 60));
}

// a malformed (truncated / damaged) text parsed with return_parse_end: the reported end is part of the task's trace (C20).
// The global error pointer is never consulted.
DEFOP(parse_bad) {
    Rng vr((uint64_t)st.A(0)), sr((uint64_t)st.A(1));
    GenOpts go = profile_opts(5);
    go.allow_raw = false; go.allow_nonfinite = false;
    MVal *v = gen_value(vr, go);
    SpellOpts so; so.ws = 1;
    std::string text = serialize_value(v, sr, so);
    mv_free(v);
    uint64_t x = (uint64_t)st.A(3), y = (uint64_t)st.A(4);
    switch ((uint64_t)st.A(2) % 3) {
        case 0: text.resize((size_t)(x % (text.size() + 1))); break;
        case 1: if (!text.empty()) text[x % text.size()] = "]}[{,:\"x"[y % 8]; break;
        default: text.insert(x % (text.size() + 1), 1, "]}[{,:\"\\"[y % 8]); break;
    }
    bool lengthapi = st.A(2) & 4;
    std::string bytes = text;
    if (!lengthapi || (y & 16)) bytes.push_back('\0');
    InputView in = present_input(bytes, true);
    const char *end = nullptr;
    cJSON *r = lengthapi ? cJSON_ParseWithLengthOpts(in.ptr, in.n, &end, (cJSON_bool)((y >> 5) & 1)) : cJSON_ParseWithOpts(in.ptr, &end, (cJSON_bool)((y >> 5) & 1));
    long off = end ? (long)(end - in.ptr) : -1;
    release_input(in);
    if (r) cJSON_Delete(r);
    w.log.add(std::string("parse_bad -> ") + (r ? "tree" : "NULL") + " end offset " + I(off) + " of " + I((int64_t)bytes.size()));
}

// ------------------------------------------------------------------ plain print (stage-setting / trace)
static const int PREBUF[] = {0, 1, 2, 3, 5, 8, 16, 64, 255, 256, 257, 1000};
DEFOP(print) {
    MVal *x = w.pick(st.A(0), st.A(1), [&](MVal *) { return true; });
    if (!x) { w.noop(st, "no node"); return; }
    if ((((uint64_t)st.A(1)) / 5) % 2 == 0) x = mv_root(x);   // half of the prints take the whole tree, the others any node of it
    std::string why;
    if (!domain_printable(x, false, false, true, 0, why)) { w.noop(st, "not printable"); return; }
    int variant = (int)((uint64_t)st.A(2) % 4);
    bool fmt = st.A(3) & 1;
    std::string out;
    bool ok = true;
    if (variant == 3) {
        size_t n = (size_t)((uint64_t)st.A(4) % 700);
        OutputView ov = present_output(n, 0xEE);
        ok = cJSON_PrintPreallocated(x->c, ov.ptr, (int)n, fmt);
        if (!output_canaries_intact(ov)) w.mismatch("print", "PrintPreallocated wrote in front of the buffer");
        if (ok) out.assign(ov.ptr, strnlen(ov.ptr, n));
        w.log.add("print prealloc n " + I((int64_t)n) + " -> " + B(ok) + " h" + std::to_string(hash_str(out)));
        return;
    }
    char *t = nullptr;
    if (variant == 0) t = cJSON_Print(x->c);
    else if (variant == 1) t = cJSON_PrintUnformatted(x->c);
    else {
        // initial buffer size: the table of boundary sizes, or any size below 600 (each reservation site of the printer
        // becomes the one that has to grow the buffer for some size)
        uint64_t a4 = (uint64_t)st.A(4);
        int prebuffer = ((a4 / 12) & 1) ? (int)((a4 / 24) % 600) : PREBUF[a4 % 12];
        t = cJSON_PrintBuffered(x->c, prebuffer, fmt);
    }
    TextGuard g(t);
    if (w.tolerate_failure(t == nullptr)) return;
    if (!t) { w.discard("a print call of the stage failed (print variant " + I(variant) + " returned NULL): the print properties own that"); return; }
    out = t;
    w.log.add("print v" + I(variant) + " -> len " + I((int64_t)out.size()) + " h" + std::to_string(hash_str(out)));
}

DEFOP(build_deep) {
    int slot = w.free_slot();
    if (slot < 0) { w.noop(st, "no free slot"); return; }
    static const int depths[] = {10, 100, 254, 255, 256, 500, 998, 999, 1000};
    int depth = depths[(uint64_t)st.A(0) % 9];
    int kind = (int)((uint64_t)st.A(1) % 3);
    MVal *m = mv_num(7);
    cJSON *c = cJSON_CreateNumber(7);
    if (!c) { mv_free(m); w.noop(st, "alloc"); return; }
    for (int d = 0; d < depth; d++) {
        bool obj = kind == 1 || (kind == 2 && (d & 1));
        cJSON *p = obj ? cJSON_CreateObject() : cJSON_CreateArray();
        MVal *pm = mv_new(obj ? T_OBJECT : T_ARRAY);
        if (!p) { cJSON_Delete(c); mv_free(m); mv_free(pm); w.noop(st, "alloc"); return; }
        if (obj) { cJSON_AddItemToObject(p, "k", c); m->keystate = K_KNOWN; m->key = "k"; }
        else cJSON_AddItemToArray(p, c);
        mv_add_kid(pm, m, 0);
        c = p; m = pm;
    }
    m->c = c;
    w.slots[slot] = m;
    w.stats.probes["deep_tree_built"]++;
    w.log.add("build_deep depth " + I(depth) + " kind " + I(kind) + " -> s" + I(slot));
}

DEFOP(build_wide) {
    // shallow but wide: many empty (or tiny) containers side by side, e.g. 1200 empty objects in one array
    int slot = w.free_slot();
    if (slot < 0) { w.noop(st, "no free slot"); return; }
    static const int widths[] = {300, 999, 1000, 1001, 1500, 2500};
    int n = widths[(uint64_t)st.A(0) % 6];
    int kind = (int)((uint64_t)st.A(1) % 4);  // 0: {} , 1: [] , 2: alternating, 3: {"k":{}} members of an object
    bool outer_obj = kind == 3;
    cJSON *root = outer_obj ? cJSON_CreateObject() : cJSON_CreateArray();
    MVal *m = mv_new(outer_obj ? T_OBJECT : T_ARRAY);
    if (!root) { mv_free(m); w.noop(st, "alloc"); return; }
    for (int i = 0; i < n; i++) {
        bool obj = kind == 0 || kind == 3 || (kind == 2 && (i & 1));
        cJSON *c = obj ? cJSON_CreateObject() : cJSON_CreateArray();
        if (!c) break;
        MVal *k = mv_new(obj ? T_OBJECT : T_ARRAY);
        if (outer_obj) { std::string key = "k" + std::to_string(i); cJSON_AddItemToObject(root, key.c_str(), c); k->keystate = K_KNOWN; k->key = key; }
        else cJSON_AddItemToArray(root, c);
        mv_add_kid(m, k, m->kids.size());
    }
    m->c = root;
    w.slots[slot] = m;
    w.stats.probes["wide_tree_built"]++;
    w.log.add("build_wide n " + I(n) + " kind " + I(kind) + " -> s" + I(slot));
}

DEFOP(build_big) {
    // few but very large values: strings of hundreds of KiB to a few MiB (the print buffer has to grow past the megabyte,
    // a single reservation can be larger than everything printed so far)
    int slot = w.free_slot();
    if (slot < 0) { w.noop(st, "no free slot"); return; }
    static const size_t sizes[] = {300u << 10, 600u << 10, 1200u << 10, 2560u << 10, 70000, 1u << 20, (1u << 20) + 1};
    Rng r((uint64_t)st.A(0));
    int n = 1 + (int)r.below(3);
    bool obj = st.A(1) & 1;
    cJSON *root = obj ? cJSON_CreateObject() : cJSON_CreateArray();
    MVal *m = mv_new(obj ? T_OBJECT : T_ARRAY);
    if (!root) { mv_free(m); w.noop(st, "alloc"); return; }
    for (int i = 0; i < n; i++) {
        size_t len = sizes[r.below(7)];
        std::string s(len, 'x');
        for (size_t k = 0; k < len; k += 97) s[k] = (char)('a' + (k / 97) % 26);
        if (r.chance(1, 3)) s[len / 2] = '"';   // one byte that needs an escape
        cJSON *c = cJSON_CreateString(s.c_str());
        if (!c) break;
        MVal *k = mv_str(s);
        if (obj) { std::string key = "big" + std::to_string(i); if (!cJSON_AddItemToObject(root, key.c_str(), c)) { cJSON_Delete(c); mv_free(k); break; } k->keystate = K_KNOWN; k->key = key; }
        else if (!cJSON_AddItemToArray(root, c)) { cJSON_Delete(c); mv_free(k); break; }
        mv_add_kid(m, k, m->kids.size());
    }
    m->c = root;
    w.slots[slot] = m;
    w.stats.probes["big_tree_built"]++;
    w.log.add("build_big n " + I((int64_t)m->kids.size()) + " -> s" + I(slot));
}

// ------------------------------------------------------------------ C04: print -> parse round trip and fixed point
static bool print_all(World &w, MVal *x, int64_t parg, std::string &F, std::string &U, std::string &err) {
    char *f = cJSON_Print(x->c);
    TextGuard gf(f);
    char *u = cJSON_PrintUnformatted(x->c);
    TextGuard gu(u);
    if (!f || !u) { err = "Print/PrintUnformatted returned NULL"; return false; }
    F = f; U = u;
    int cand[8] = {0, 1, 2, (int)U.size() - 1, (int)U.size(), (int)U.size() + 1, 256, (int)F.size() + 1};
    Rng pr((uint64_t)parg);
    for (int k = 0; k < 4; k++) {
        int p = k < 3 ? cand[pr.below(8)] : PREBUF[pr.below(12)];
        if (p < 0) p = 0;
        for (int fmt = 0; fmt < 2; fmt++) {
            // cJSON_bool is an int: every non-zero value asks for formatted output
            static const int truthy[] = {1, 1, 2, -1, 255, 1024};
            char *b = cJSON_PrintBuffered(x->c, p, fmt ? truthy[pr.below(6)] : 0);
            TextGuard gb(b);
            if (!b) { err = "PrintBuffered(prebuffer " + I(p) + ", fmt " + I(fmt) + ") returned NULL"; return false; }
            if ((fmt ? F : U) != b) { err = "PrintBuffered(prebuffer " + I(p) + ", fmt " + I(fmt) + ") differs from Print" + (fmt ? "" : "Unformatted") + ": '" + show_bytes(b, 80) + "' vs '" + show_bytes(fmt ? F : U, 80) + "'"; return false; }
            w.stats.fault_counts["cfg_prebuffer"]++;
        }
    }
    if (pr.chance(1, 6) && F.size() <= 800) {
        // the initial buffer size ENUMERATED: with p = 0 .. length every reservation site of the printer is, for some p, the one
        // that has to grow the buffer first
        for (int fmt = 0; fmt < 2; fmt++) {
            const std::string &T = fmt ? F : U;
            for (int p = 0; p <= (int)T.size() + 1; p++) {
                char *b = cJSON_PrintBuffered(x->c, p, fmt);
                TextGuard gb(b);
                if (!b) { err = "PrintBuffered(prebuffer " + I(p) + ", fmt " + I(fmt) + ") returned NULL"; return false; }
                if (T != b) { err = "PrintBuffered(prebuffer " + I(p) + ", fmt " + I(fmt) + ") differs from Print" + (fmt ? "" : "Unformatted") + ": '" + show_bytes(b, 80) + "' vs '" + show_bytes(T, 80) + "'"; return false; }
            }
        }
        w.stats.probes["prebuffer_enumerated"]++;
    }
    for (int fmt = 0; fmt < 2; fmt++) {
        const std::string &T = fmt ? F : U;
        size_t n = T.size() + 6 + (size_t)pr.below(20);
        OutputView ov = present_output(n, 0xEE);
        static const int truthy2[] = {1, 2, -1, 4};
        cJSON_bool ok = cJSON_PrintPreallocated(x->c, ov.ptr, (int)n, fmt ? truthy2[pr.below(4)] : 0);
        if (!ok) { err = "PrintPreallocated with text length + " + I((int64_t)(n - T.size())) + " bytes returned false"; return false; }
        if (!output_canaries_intact(ov)) { err = "PrintPreallocated wrote in front of the buffer"; return false; }
        if (strnlen(ov.ptr, n) != T.size() || memcmp(ov.ptr, T.data(), T.size()) != 0) { err = "PrintPreallocated text differs from Print" + std::string(fmt ? "" : "Unformatted"); return false; }
    }
    return true;
}
DEFOP(roundtrip) {
    MVal *x = w.pick(st.A(0), st.A(1), [&](MVal *) { return true; });
    if (!x) { w.noop(st, "no node"); return; }
    if ((((uint64_t)st.A(1)) / 5) % 2 == 0) x = mv_root(x);   // half of the evaluations take a whole tree (deep and wide ones are trees, not nodes)
    std::string why;
    if (!domain_printable(x, true, false, false, 0, why)) { w.noop(st, "outside the C04 domain"); return; }
    MVal *E = mv_clone_value(x);
    struct Free { MVal *m; ~Free() { mv_free(m); } } fe{E};
    int home = w.cfg.hookcfg;
    int cfgs[2] = {home, home == HK_BOTH ? HK_DEFAULT : HK_BOTH};
    std::string F0, U0;
    for (int ci = 0; ci < 2; ci++) {
        w.install_hooks(cfgs[ci]);
        struct Restore { World &w; int h; ~Restore() { w.install_hooks(h); } } rs{w, home};
        w.stats.fault_counts[cfgs[ci] == HK_BOTH ? "cfg_custom_no_realloc" : "cfg_default_realloc"]++;
        std::string F, U, err;
        if (!print_all(w, x, st.A(2) + ci, F, U, err)) { w.mismatch("print-variants", err + " [tree " + mv_dump(E, 100) + "]"); return; }
        if (ci == 0) { F0 = F; U0 = U; }
        else {
            if (F != F0) { w.mismatch("print-config", "formatted text depends on the allocator configuration: '" + show_bytes(F, 80) + "' vs '" + show_bytes(F0, 80) + "'"); return; }
            if (U != U0) { w.mismatch("print-config", "unformatted text depends on the allocator configuration: '" + show_bytes(U, 80) + "' vs '" + show_bytes(U0, 80) + "'"); return; }
        }
        for (int fmt = 0; fmt < 2; fmt++) {
            const std::string &T = fmt ? F : U;
            cJSON *back = cJSON_Parse(T.c_str());
            if (!back) { w.mismatch("parse-back", std::string(fmt ? "formatted" : "unformatted") + " text does not parse back: '" + show_bytes(T, 160) + "'"); return; }
            struct Del { cJSON *c; ~Del() { cJSON_Delete(c); } } dl{back};
            size_t budget = 4000000;
            std::string rw;
            MVal *R = read_struct(back, budget, 0, rw);
            if (!R) { w.mismatch("parse-back", "re-parsed tree unreadable: " + rw); return; }
            struct FreeR { MVal *m; ~FreeR() { mv_free(m); } } fr{R};
            EqOpts eo; eo.rel_tol = DBL_EPSILON; eo.exact_int_below_1e15 = true;
            std::string ew;
            if (!mv_equal(E, R, eo, &ew)) { w.mismatch("round-trip", "re-parsed tree differs from the printed tree: " + ew + " [text '" + show_bytes(T, 120) + "']"); return; }
            char *again = fmt ? cJSON_Print(back) : cJSON_PrintUnformatted(back);
            TextGuard ga(again);
            if (!again) { w.mismatch("fixed-point", "printing the re-parsed tree returned NULL"); return; }
            if (T != again) { w.mismatch("fixed-point", "printing the re-parsed tree is not byte-identical: '" + show_bytes(again, 100) + "' vs '" + show_bytes(T, 100) + "'"); return; }
        }
    }
    bool nontrivial = false;
    { std::vector<MVal *> all; mv_collect(E, all); bool cont = E->is_container(), spicy = false;
      for (MVal *m : all) { if (m->type == T_NUMBER && m->num != std::floor(m->num)) spicy = true; if (m->type == T_STRING) for (unsigned char ch : m->str) if (ch < 32 || ch == '"' || ch == '\\' || ch >= 0x80) spicy = true; }
      nontrivial = cont && spicy; }
    if (nontrivial) { w.mark_nontrivial(); w.stats.state_hashes.push_back(mix64(mv_hash(E), (uint64_t)home)); }
    if (U0.size() > 256) w.stats.probes["text_crosses_256"]++;
    w.log.add("roundtrip ok len " + I((int64_t)U0.size()) + " h" + std::to_string(hash_str(U0)));
}

// ------------------------------------------------------------------ C05: printed text is strict JSON, variants agree
static bool int_literal(const std::string &t) {
    size_t i = 0;
    if (i < t.size() && t[i] == '-') i++;
    if (i >= t.size()) return false;
    if (t[i] == '0') return i + 1 == t.size();
    if (t[i] < '1' || t[i] > '9') return false;
    for (; i < t.size(); i++) if (t[i] < '0' || t[i] > '9') return false;
    return true;
}
DEFOP(strictprint) {
    MVal *x = w.pick(st.A(0), st.A(1), [&](MVal *) { return true; });
    if (!x) { w.noop(st, "no node"); return; }
    if ((((uint64_t)st.A(1)) / 5) % 2 == 0) x = mv_root(x);   // half of the evaluations take a whole tree (deep and wide ones are trees, not nodes)
    std::string why;
    if (!domain_printable(x, false, true, false, 0, why)) { w.noop(st, "outside the C05 domain"); return; }
    MVal *E = mv_clone_value(x);
    struct Free { MVal *m; ~Free() { mv_free(m); } } fe{E};
    std::string F, U, err;
    if (!print_all(w, x, st.A(2), F, U, err)) { w.mismatch("print-variants", err + " [tree " + mv_dump(E, 100) + "]"); return; }
    if (strip_ws(F) != U) { w.mismatch("format-whitespace", "formatted text without insignificant whitespace differs from the unformatted text: '" + show_bytes(strip_ws(F), 100) + "' vs '" + show_bytes(U, 100) + "'"); return; }
    for (int fmt = 0; fmt < 2; fmt++) {
        const std::string &T = fmt ? F : U;
        std::string sw;
        MVal *R = strict_read(T, sw);
        if (!R) { w.mismatch("strict-json", std::string(fmt ? "formatted" : "unformatted") + " text is not strict RFC 8259: " + sw + " ['" + show_bytes(T, 160) + "']"); return; }
        struct FreeR { MVal *m; ~FreeR() { mv_free(m); } } fr{R};
        EqOpts eo; eo.rel_tol = DBL_EPSILON; eo.nonfinite_is_null = true;
        std::string ew;
        if (!mv_equal(E, R, eo, &ew)) { w.mismatch("strict-value", "text decodes to a different value: " + ew + " ['" + show_bytes(T, 120) + "']"); return; }
    }
    // integer-valued numbers in the int range: plain decimal integers
    std::vector<MVal *> all;
    mv_collect(x, all);
    int checked = 0;
    bool has_nonfinite = false;
    for (MVal *m : all) {
        if (m->type != T_NUMBER || !m->c) continue;
        if (!std::isfinite(m->num)) { has_nonfinite = true; continue; }
        if (!(m->num >= (double)INT_MIN && m->num <= (double)INT_MAX && m->num == std::floor(m->num))) continue;
        if (checked++ >= 6) break;
        char *t = cJSON_PrintUnformatted(m->c);
        TextGuard g(t);
        if (!t) { w.mismatch("print-variants", "PrintUnformatted(number) returned NULL"); return; }
        if (!int_literal(t)) { char msg[128]; snprintf(msg, sizeof msg, "integer-valued number %.17g printed as '%s'", m->num, t); w.mismatch("int-literal", msg); return; }
    }
    if (has_nonfinite) w.stats.probes["nonfinite_printed"]++;
    if (E->is_container() && U.size() > 20) { w.mark_nontrivial(); w.stats.state_hashes.push_back(mv_hash(E)); }
    w.log.add("strictprint ok len " + I((int64_t)U.size()) + " h" + std::to_string(hash_str(U)));
}

// ------------------------------------------------------------------ C09: every capacity n in [0, len+16]
DEFOP(capscan) {
    MVal *x = w.pick(st.A(0), st.A(1), [&](MVal *) { return true; });
    if (!x) { w.noop(st, "no node"); return; }
    if ((((uint64_t)st.A(1)) / 5) % 2 == 0) x = mv_root(x);   // half of the evaluations take a whole tree (deep and wide ones are trees, not nodes)
    std::string why;
    if (!domain_printable(x, false, false, true, 0, why)) { w.noop(st, "not printable"); return; }
    for (int fmt = 0; fmt < 2; fmt++) {
        char *t = fmt ? cJSON_Print(x->c) : cJSON_PrintUnformatted(x->c);
        TextGuard g(t);
        if (!t) { w.noop(st, "allocating print failed"); return; }
        std::string T = t;
        bool seen_true = false;
        size_t first_true = 0;
        // every n for ordinary texts; for very long texts (deep formatted trees) every n near both ends and a stride in between
        size_t stride = T.size() > 4000 ? T.size() / 600 : 1;
        for (size_t n = 0; n <= T.size() + 16; n += (n < 200 || n + 200 >= T.size()) ? 1 : stride) {
            OutputView ov = present_output(n, (unsigned char)(0xE0 + (n & 7)));
            static const int truthy3[] = {1, 1, 2, -1, 255};
            cJSON_bool ok = cJSON_PrintPreallocated(x->c, ov.ptr, (int)n, fmt ? truthy3[(uint64_t)st.A(2) % 5] : 0);
            w.stats.fault_counts["cap"]++;
            std::string ctx = " [n=" + I((int64_t)n) + ", text length " + I((int64_t)T.size()) + ", fmt " + I(fmt) + ", tree " + mv_dump(x, 80) + "]";
            if (!output_canaries_intact(ov)) { w.mismatch("bounds", "bytes in front of the caller buffer were modified" + ctx); return; }
            if (ok) {
                if (n < T.size() + 1 || strnlen(ov.ptr, n) != T.size() || memcmp(ov.ptr, T.data(), T.size() + 1) != 0) { w.mismatch("true-means-complete", "returned true but the buffer does not hold the complete zero-terminated text" + ctx); return; }
                if (!seen_true) { seen_true = true; first_true = n; }
            } else {
                if (n >= T.size() + 1 + 5) { w.mismatch("enough-room", "returned false although the buffer is at least text + terminator + 5 bytes" + ctx); return; }
                if (seen_true) { w.mismatch("monotone", "succeeded for n=" + I((int64_t)first_true) + " but fails for a larger buffer" + ctx); return; }
            }
            if (T.size() > 8) w.stats.state_hashes.push_back(mix64((uint64_t)(n - T.size() + 64), mix64(hash_str(T), (uint64_t)fmt)));
        }
        if (T.size() > 8) w.mark_nontrivial();
        w.log.add("capscan fmt " + I(fmt) + " len " + I((int64_t)T.size()) + " first_true " + I((int64_t)first_true));
    }
}
