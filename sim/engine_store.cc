// Engine store (C01, C03, C10): a document store holds texts serialised from model values; storage
// faults (truncation, bit flips, lost/duplicated spans, splices, lost terminator, grammar-biased
// single edits) hit the stored bytes between write and read; the read goes through a guarded view.
#include <algorithm>
#include <cstring>
#include "gen.h"
#include "guard.h"
#include "profiles.h"
#include "refjson.h"
#include "run.h"

static int64_t R(Rng &r) { return (int64_t)(r.next() >> 2); }
static Step mk(const std::string &op, std::initializer_list<int64_t> a = {}, std::initializer_list<std::string> s = {}) {
    Step st; st.op = op; st.a.assign(a.begin(), a.end()); st.s.assign(s.begin(), s.end()); return st;
}
static std::string I(int64_t v) { return std::to_string(v); }

// ------------------------------------------------------------------ documents
static std::string make_doc(int64_t vseed, int64_t sseed, int profile) {
    Rng vr((uint64_t)vseed), sr((uint64_t)sseed);
    GenOpts go = profile_opts(profile);
    go.allow_raw = false; go.allow_nonfinite = false;
    MVal *v = gen_value(vr, go);
    SpellOpts so; so.bom = sr.chance(1, 8); so.ws = (int)sr.below(3); so.escapes = sr.chance(3, 4); so.numspell = sr.chance(3, 4);
    std::string t = serialize_value(v, sr, so);
    mv_free(v);
    return t;
}
static std::string make_soup(int64_t seed) {
    static const char *tok[] = {"[", "]", "{", "}", ",", ":", "\"a\"", "\"\"", "1", "-1.5e3", "true", "false", "null", " ", "\n", "\"\\u00e9\"", "\"\\ud83d\\ude00\"", "0", "-", "\"k\":", "[]", "{}", "1e", ".", "\\", "\"", "tru", "nul", "\xEF\xBB\xBF", "/*c*/", "0x10", "-inf", "-nan", "-Infinity", "0x1p4", "-0x1p-1", "-NAN(7)", "1e5f"};
    Rng r((uint64_t)seed);
    int n = 1 + (int)r.below(r.chance(1, 4) ? 8 : 4);
    std::string s;
    for (int i = 0; i < n; i++) s += tok[r.below(r.chance(3, 4) ? 16 : 38)];
    return s;
}
static std::string make_raw(int64_t seed) {
    Rng r((uint64_t)seed);
    size_t n = (size_t)r.below(r.chance(1, 4) ? 64 : 12);
    std::string s;
    for (size_t i = 0; i < n; i++) s.push_back((char)(r.chance(1, 2) ? r.below(256) : (uint64_t)"[]{}\",:\\0123456789-+.eEtrufalsn \t\n"[r.below(34)]));
    return s;
}
static std::string make_wide(int64_t seed) {
    // shallow but very wide: the sibling chain is as long as a deep document is deep
    Rng r((uint64_t)seed);
    static const size_t widths[] = {20000, 150000, 400000, 1000000};
    size_t n = widths[r.below(4)];
    bool obj = r.chance(1, 4);
    std::string s = obj ? "{" : "[";
    for (size_t i = 0; i < n; i++) {
        if (i) s.push_back(',');
        if (obj) { s += "\"k\":"; }
        s.push_back((char)('0' + i % 10));
    }
    s += obj ? "}" : "]";
    return s;
}
static std::string make_numtok(int64_t seed) {
    // number-like tokens around the 63-character scratch limit of the parser
    Rng r((uint64_t)seed);
    size_t len = (size_t)r.range(58, 70);
    if (r.chance(1, 6)) len = (size_t)r.range(100, 300);
    std::string t;
    if (r.chance(1, 3)) t.push_back('-');
    unsigned style = (unsigned)r.below(4);
    while (t.size() < len) {
        size_t i = t.size();
        if (style == 1 && i == 2) t.push_back('.');
        else if (style == 2 && i == len / 2) t.push_back('e');
        else if (style == 3 && r.chance(1, 9)) t.push_back("+-.eE"[r.below(5)]);
        else t.push_back((char)('0' + r.below(10)));
    }
    if (r.chance(1, 5) && t.size() > 3) {
        // nothing convertible right after the sign / at the start: the conversion function finds no number at all
        static const char *lead[] = {"e", "E", "-", "+", ".e", "e+"};
        size_t at = t[0] == '-' ? 1 : 0;
        std::string l = lead[r.below(6)];
        if (at == 0) t = "-" + t;
        t.replace(1, l.size(), l);
    }
    switch (r.below(4)) {
        case 0: return t;
        case 1: return "[" + t + "]";
        case 2: return "{\"n\":" + t + "}";
        default: return "[1," + t + ",2]";
    }
}
static std::string make_deep(int64_t kind, int64_t dsel, int64_t closed) {
    static const int depths[] = {998, 999, 1000, 1001, 1002, 1100, 5000, 100000, 100000, 100000};
    int d = depths[(uint64_t)dsel % 10];
    std::string open, close, inner = "1";
    int k = (int)((uint64_t)kind % 5);
    for (int i = 0; i < d; i++) {
        bool obj = k == 1 || (k == 2 && (i & 1));
        if (k == 3) { open += "[[],"; close += "]"; }               // an empty container before the child that continues the nesting
        else if (k == 4) { open += "{\"e\":{},\"a\":"; close += "}"; }
        else { open += obj ? "{\"a\":" : "["; close += obj ? "}" : "]"; }
    }
    std::reverse(close.begin(), close.end());
    if ((uint64_t)closed % 3 == 0) return open;           // unbalanced: only openers
    if ((uint64_t)closed % 3 == 1) return open + inner + close;
    return open + close.substr(0, close.size() / 2);      // half closed
}

// ------------------------------------------------------------------ storage faults
static const char *fault_name(int kind) {
    static const char *n[] = {"trunc", "flip", "byte_replace", "span_del", "span_dup", "ins_struct", "splice", "struct_swap", "struct_drop", "sep_dup", "literal_tamper",
                              "number_tamper", "escape_tamper", "surrogate_tamper", "quote_drop", "key_replace", "nest_wrap", "ins_lenient_ws", "ins_nul", "trailer", "escape_run"};
    return n[kind];
}
static const int NFAULT = 21;
static std::vector<size_t> positions(const std::string &b, const char *set) {
    std::vector<size_t> v;
    for (size_t i = 0; i < b.size(); i++) if (b[i] && strchr(set, b[i])) v.push_back(i);
    return v;
}
static bool apply_fault(std::string &b, int kind, uint64_t x, uint64_t y, uint64_t seed) {
    Rng r(seed);
    size_t n = b.size();
    switch (kind) {
        case 0: b.resize((size_t)(x % (n + 1))); return true;
        case 1: if (!n) return false; b[x % n] = (char)(b[x % n] ^ (1 << (y % 8))); return true;
        case 2: if (!n) return false; b[x % n] = (char)(y % 256); return true;
        case 3: if (!n) return false; b.erase(x % n, 1 + y % 4); return true;
        case 4: { if (!n) return false; size_t p = x % n, l = 1 + y % 6; b.insert(p, b.substr(p, l)); return true; }
        case 5: { static const char st[] = "[]{},:\"\\-0e.tfn"; b.insert(x % (n + 1), 1, st[y % (sizeof st - 1)]); return true; }
        case 6: { std::string o = make_doc((int64_t)seed, (int64_t)(seed >> 7), 0); size_t cut = n ? x % (n + 1) : 0, oc = o.size() ? y % (o.size() + 1) : 0; b = b.substr(0, cut) + o.substr(oc); return true; }
        case 7: { auto v = positions(b, "[]{},:\""); if (v.empty()) return false; static const char st[] = "[]{},:\"=;'|()<>"; size_t p = v[x % v.size()]; char c = st[y % 15]; if (c == b[p]) c = st[(y + 1) % 15]; b[p] = c; return true; }
        case 8: { auto v = positions(b, "[]{},:"); if (v.empty()) return false; b.erase(v[x % v.size()], 1); return true; }
        case 9: { auto v = positions(b, ",:"); if (v.empty()) return false; size_t p = v[x % v.size()]; b.insert(p, 1, b[p]); return true; }
        case 10: {
            std::vector<std::pair<size_t, size_t>> lit;
            for (size_t i = 0; i < n; i++) for (const char *w : {"true", "false", "null"}) if (b.compare(i, strlen(w), w) == 0) lit.push_back({i, strlen(w)});
            if (lit.empty()) return false;
            auto l = lit[x % lit.size()];
            switch (y % 4) {
                case 0: b[l.first + (y / 4) % l.second] = (char)(b[l.first + (y / 4) % l.second] - 32); break;   // wrong case
                case 1: b.erase(l.first + l.second - 1, 1); break;                                              // nul / tru / fals
                case 2: b[l.first + l.second - 1] = 'x'; break;
                default: b.insert(l.first + l.second, 1, b[l.first + l.second - 1]); break;                      // nulll
            }
            return true;
        }
        case 11: {
            std::vector<std::pair<size_t, size_t>> runs;
            bool in_str = false;
            for (size_t i = 0; i < n; i++) {
                if (b[i] == '"' && (i == 0 || b[i - 1] != '\\')) in_str = !in_str;
                if (!in_str && b[i] >= '0' && b[i] <= '9') { size_t j = i; while (j < n && b[j] >= '0' && b[j] <= '9') j++; runs.push_back({i, j - i}); i = j; }
            }
            if (runs.empty()) return false;
            auto d = runs[x % runs.size()];
            switch (y % 7) {
                case 0: b.erase(d.first, d.second); break;            // number without (these) digits
                case 1: b.insert(d.first, "0"); break;                // leading zero
                case 2: b.insert(d.first + d.second, "."); break;     // bare trailing point
                case 3: b.insert(d.first + d.second, "e"); break;     // dangling exponent
                case 4: b.replace(d.first, d.second, "-"); break;
                default: {
                    // spellings only a C conversion function knows (hex, hex floats, infinities, NaNs, suffixes): not JSON, and not
                    // reachable through the characters the library's number scan admits - unless the conversion runs on the input itself
                    static const char *alien[] = {"0x10", "0x1p4", "0X1P-2", "inf", "Infinity", "nan", "NAN(7)", "INF", "0x", "0x.8p1", "1e5f", "0b11", "1_0", "infinity", "NaN", "1.5L", "0x1.8", "1e+0x1"};
                    std::string a = alien[(y / 7) % 18];
                    bool neg = d.first > 0 && b[d.first - 1] == '-';
                    if (!neg && ((y / 7 / 18) & 1)) a = "-" + a;
                    b.replace(d.first, d.second, a);
                    break;
                }
            }
            return true;
        }
        case 12: {
            auto v = positions(b, "\\");
            if (v.empty()) {  // no escape present: plant one inside the first string
                size_t q = b.find('"');
                if (q == std::string::npos) return false;
                static const char *e[] = {"\\x", "\\U0041", "\\u12", "\\u", "\\uZZZZ", "\\u12G4", "\\a", "\\'", "\\u 123", "\\u+123", "\\u\\u\\u", "\\u\\u\\u\\u\\u\\u", "\\u0x41", "\\u-000", "\\u\\u"};
                b.insert(q + 1 + (b.size() > q + 9 ? (x % 8) : 0), e[y % 15]);
                return true;
            }
            size_t p = v[x % v.size()];
            if (p + 1 >= n) return false;
            if ((y % 7) == 0) { b.insert(p, (y % 2) ? "\\u\\u\\u" : "\\u\\u\\u\\u"); return true; }
            if (b[p + 1] == 'u') {
                switch (y % 4) {
                    case 0: b.erase(p + 2, std::min<size_t>(1 + (y / 4) % 4, n - p - 2)); break;   // fewer than four hex digits
                    case 1: if (p + 2 + (y / 4) % 4 < n) b[p + 2 + (y / 4) % 4] = "ZgG-x "[(y / 16) % 6]; break;  // non-hex digit
                    case 2: b[p + 1] = 'U'; break;
                    default: b.erase(p, 1); break;
                }
            } else {
                static const char bad[] = {'x', 'a', 'v', 'e', 'U', 'N', '0', '\'', 'q', ' ', '\0', '\0'};   // incl. a zero byte after the backslash
                b[p + 1] = bad[y % 12];
            }
            return true;
        }
        case 13: {
            size_t q = b.find('"');
            if (q == std::string::npos) return false;
            auto v = positions(b, "\"");
            size_t p = v[x % v.size()];
            // only plant inside a string body: after an opening quote (even index among quotes is an approximation; misplacement is just another corruption)
            static const char *s[] = {"\\uD800", "\\uDC00", "\\uDFFF", "\\uDBFF", "\\uDC00\\uD800", "\\uD800\\u0041", "\\uD800\\uD800", "\\uD83D", "\\uD800x", "\\uD83D\\uDE0"};
            b.insert(p + 1, s[y % 10]);
            return true;
        }
        case 14: { auto v = positions(b, "\""); if (v.empty()) return false; b.erase(v[x % v.size()], 1); return true; }
        case 15: {
            // replace a key string by a number / literal / unquoted word
            std::vector<std::pair<size_t, size_t>> keys;
            for (size_t i = 0; i < n; i++) if (b[i] == '"') { size_t j = i + 1; while (j < n && b[j] != '"') { if (b[j] == '\\') j++; j++; } if (j < n) { size_t k = j + 1; while (k < n && (b[k] == ' ' || b[k] == '\t' || b[k] == '\n' || b[k] == '\r')) k++; if (k < n && b[k] == ':') keys.push_back({i, j + 1 - i}); i = j; } }
            if (keys.empty()) return false;
            auto k = keys[x % keys.size()];
            static const char *rep[] = {"1", "true", "null", "abc", "'k'", "[]", ""};
            b.replace(k.first, k.second, rep[y % 7]);
            return true;
        }
        case 16: {
            static const int depths[] = {1, 10, 999, 1000, 1001, 1100};
            int d = depths[x % 6];
            bool obj = y & 1;
            std::string o, c;
            for (int i = 0; i < d; i++) { o += obj ? "{\"w\":" : "["; c += obj ? "}" : "]"; }
            b = o + b + c;
            return true;
        }
        case 17: { char c = (char)(1 + y % 0x20); b.insert(x % (n + 1), 1, c); return true; }
        case 18: {
            // a zero byte anywhere, or (a quarter of the time) right after a backslash of a string body
            if ((y % 4) == 0) { auto v = positions(b, "\\"); if (!v.empty()) { b.insert(v[x % v.size()] + 1, 1, '\0'); return true; } }
            b.insert(x % (n + 1), 1, '\0');
            return true;
        }
        case 20: {
            // a run of truncated / bare escapes inside a string body that keeps its closing quote
            auto v = positions(b, "\"");
            if (v.size() < 2) return false;
            size_t q = v[(x % (v.size() / 2)) * 2];          // an opening quote (approximately: quotes alternate)
            size_t close = b.find('"', q + 1);
            if (close == std::string::npos) return false;
            static const char *piece[] = {"\\u", "\\u", "\\u1", "\\u12", "\\u123", "\\uD800", "\\"};
            std::string run;
            int k = 2 + (int)(y % 5);
            for (int i = 0; i < k; i++) run += piece[r.below(r.chance(3, 4) ? 2 : 7)];
            std::string pad((size_t)(y / 5 % 12), 'D');
            b.insert(close, pad + run);
            return true;
        }
        default: {
            static const char *tr[] = {" ", "\n\t ", "x", " x", "]", ",", "\0x", " \0", "\0", "1", "//c", "}", "\"", " \0 ", "\0\0", "\xE9", "\xC2\xA0", " \xEF\xBB\xBF", "\x80", "\xFF "};
            static const size_t trl[] = {1, 3, 1, 2, 1, 1, 2, 2, 1, 1, 3, 1, 1, 3, 2, 1, 2, 4, 1, 2};
            b.append(tr[y % 20], trl[y % 20]);
            return true;
        }
    }
}

// ------------------------------------------------------------------ generators
Plan gen_store_plan(const std::string &prop, uint64_t seed, int64_t run) {
    Plan p;
    p.engine = "store"; p.property = prop; p.seed = seed; p.run = run;
    Rng r(mix64(mix64(seed, hash_str(prop)), (uint64_t)run));
    p.knobs["hooks"] = r.chance(1, 2);
    p.knobs["fill"] = (int64_t)r.range(1, 255);
    p.knobs["realloc"] = (int64_t)r.below(2);
    auto add_doc = [&]() {
        unsigned k = (unsigned)r.below(20);
        if (k < 14) p.steps.push_back(mk("doc", {R(r), R(r), (int64_t)(r.chance(1, 3) ? 5 : (r.chance(1, 2) ? 0 : 3))}));
        else if (k < 16) p.steps.push_back(mk("soup", {R(r)}));
        else if (k < 17) p.steps.push_back(mk("numtok", {R(r)}));
        else if (k < 19) p.steps.push_back(mk("raw", {R(r)}));
        else p.steps.push_back(mk("deep", {R(r), R(r), R(r)}));
    };
    auto add_fault = [&](bool biased) {
        int kind;
        if (biased) { static const int ks[] = {7, 8, 9, 10, 11, 12, 13, 14, 15, 16, 0, 5, 19, 7, 8, 12, 13, 10, 20, 20}; kind = ks[r.below(20)]; }
        else kind = (int)r.below(NFAULT);
        p.steps.push_back(mk("fault", {kind, R(r), R(r), R(r)}));
    };
    if (prop == "C01") {
        // one stored document, sampled faults, several reads. In a third of the runs the short-write fault is enumerated at
        // every byte by sub-executions; the other runs only sample faults (they are cheap, so many more of them fit the budget)
        bool enumerate = r.chance(1, 3);
        if (r.chance(1, 12)) p.steps.push_back(mk("deep", {R(r), R(r), R(r)}));
        else if (r.chance(1, 120)) p.steps.push_back(mk("wide", {R(r)}));
        else if (r.chance(1, 10)) p.steps.push_back(mk("numtok", {R(r)}));
        else if (r.chance(1, 6)) p.steps.push_back(mk(r.chance(1, 2) ? "soup" : "raw", {R(r)}));
        else p.steps.push_back(mk("doc", {R(r), R(r), (int64_t)(r.chance(1, 2) ? 5 : (r.chance(1, 2) ? 0 : 1))}));
        int nf = enumerate ? (int)r.below(3) : (int)r.range(1, 3);
        for (int i = 0; i < nf; i++) add_fault(!enumerate && r.chance(1, 2));
        int np = (int)r.range(1, 3);
        for (int i = 0; i < np; i++) p.steps.push_back(mk("parse", {R(r), R(r)}));
        if (enumerate) p.knobs["enumerate_trunc"] = 1;
    } else if (prop == "C03") {
        int groups = (int)r.range(1, 4);
        for (int g = 0; g < groups; g++) {
            add_doc();
            int nf = r.chance(1, 8) ? 2 : 1;
            if (r.chance(1, 12)) nf = 0;
            for (int i = 0; i < nf; i++) add_fault(true);
            int np = (int)r.range(1, 2);
            for (int i = 0; i < np; i++) p.steps.push_back(mk("parse", {R(r), R(r)}));
        }
    } else {  // C10
        int groups = (int)r.range(2, 6);
        for (int g = 0; g < groups; g++) {
            add_doc();
            if (r.chance(1, 2)) p.steps.push_back(mk("fault", {19, R(r), R(r), R(r)}));  // trailing bytes / whitespace / zero bytes
            if (r.chance(1, 3)) add_fault(r.chance(1, 2));
            int np = (int)r.range(1, 3);
            for (int i = 0; i < np; i++) p.steps.push_back(mk("parse", {R(r), R(r), r.chance(1, 6) ? (int64_t)r.range(1, 6) : 0}));
        }
    }
    return p;
}

// ------------------------------------------------------------------ executor
namespace {
struct StoreRun {
    const Plan &p;
    EventLog &log;
    RunStats &stats;
    Progress *prog;
    std::string bytes;
    std::string lastfault = "none";
    int step = -1;
    uint64_t evals = 0;
    int64_t subcount = 0;
    bool have_doc = false;

    [[noreturn]] void violation(const std::string &oracle, const std::string &msg) {
        Outcome o; o.kind = Outcome::VIOLATION; o.oracle = p.property + "/" + oracle; o.msg = msg; o.step = step;
        throw Stop{o};
    }
    [[noreturn]] void discard(const std::string &why) {
        Outcome o; o.kind = Outcome::DISCARD; o.oracle = "discard"; o.msg = why; o.step = step;
        throw Stop{o};
    }
    static int byte_class(int c) {
        if (c < 0) return 0;
        if (c == '"') return 1; if (c == '\\') return 2; if (c == '[' || c == ']') return 3; if (c == '{' || c == '}') return 4;
        if (c == ',' || c == ':') return 5; if (c >= '0' && c <= '9') return 6; if (c == '-' || c == '+' || c == '.' || c == 'e' || c == 'E') return 7;
        if (c <= 0x20) return 8; if (c >= 0x80) return 9; if (c == 'u') return 10; if (c >= 'a' && c <= 'z') return 11;
        return 12;
    }
    void do_parse(const Step &st) {
        int entry = (int)((uint64_t)st.A(0) % 4);
        int flags = (int)((uint64_t)st.A(1) & 7);
        bool opts = entry == 1 || entry == 3;
        bool req = opts && (flags & 1), wantend = opts && (flags & 2), term = flags & 4;
        bool cstring = entry < 2;
        std::string B = bytes;
        int64_t cut = -1;
        if (p.sub >= 1 && p.knob("enumerate_trunc", 0)) {  // enumerated storage fault: short write at byte n
            cut = (p.sub - 1) / 2;
            term = (p.sub - 1) & 1;
            if ((size_t)cut < B.size()) B.resize((size_t)cut);
            stats.fault_counts["trunc_enumerated"]++;
            stats.fault_counts[term ? "terminator_kept" : "noterm"]++;
        } else stats.fault_counts[(cstring || term) ? "terminator_kept" : "noterm"]++;
        std::string buffer;
        if (cstring) { size_t z = B.find('\0'); buffer = (z == std::string::npos ? B : B.substr(0, z)); buffer.push_back('\0'); }
        else { buffer = B; if (term) buffer.push_back('\0'); }
        size_t n = buffer.size();
        const std::string &prop = p.property;
        size_t live0 = asim::live_blocks();
        std::vector<uint64_t> serials0;
        if (prop != "C10") serials0 = asim::live_serials();
        ReadResult cls;
        if (prop == "C03") classify_text((const unsigned char *)buffer.data(), n, cstring, req, cls);
        InputView in = present_input(buffer, true);
        const char *buf = in.ptr;
        const char *end = (const char *)0x1;  // sentinel: must be overwritten when wanted
        cJSON *r = nullptr;
        if (prog) prog->judged = 1;
        long failk = (prop == "C10") ? (long)st.A(2) : 0;  // C10: the allocator refuses request k of this call (the failure clause must hold for every cause of failure)
        asim::begin_step();
        if (failk > 0) asim::arm_fail(failk);
        switch (entry) {
            case 0: r = cJSON_Parse(buf); break;
            case 1: r = cJSON_ParseWithOpts(buf, wantend ? &end : nullptr, req); break;
            case 2: r = cJSON_ParseWithLength(buf, n); break;
            default: r = cJSON_ParseWithLengthOpts(buf, n, wantend ? &end : nullptr, req); break;
        }
        asim::arm_fail(0);
        bool alloc_failed = failk > 0 && asim::fail_fired_in_step();
        if (alloc_failed) stats.fault_counts["alloc_fail_in_parse"]++;
        const char *ep = cJSON_GetErrorPtr();
        evals++;
        std::string ctx = std::string(failk > 0 ? " [allocation request " + I(failk) + " refused]" : "") + " [entry " + I(entry) + (req ? " require_null_terminated" : "") + (wantend ? " return_parse_end" : "") + ((cstring || term) ? " terminated" : " unterminated") + ", " + I((int64_t)n) + " declared bytes '" + show_bytes(buffer, 100) + "', last fault " + lastfault + (cut >= 0 ? ", cut at " + I(cut) : "") + "]";
        bool unmodified = input_unmodified(in, buffer);
        std::string verdict = r ? "tree" : "NULL";
        // ---------------- C01
        if (prop == "C01") {
            if (!unmodified) { release_input(in); violation("input-modified", "the input buffer was written to" + ctx); }
            if (r) {
                size_t budget = 4000000;
                std::string why;
                if (!struct_wellformed(r, true, budget, 0, why)) { release_input(in); violation("tree-walk", "the returned tree cannot be walked: " + why + ctx); }
                char *a = cJSON_Print(r), *b2 = cJSON_PrintUnformatted(r);
                bool printed = a && b2;
                if (a) cJSON_free(a);
                if (b2) cJSON_free(b2);
                if (!printed) { release_input(in); violation("tree-print", "the returned tree cannot be printed" + ctx); }
                cJSON_Delete(r);
                r = nullptr;
            }
            release_input(in);
            std::string lv = asim::take_violation();
            if (!lv.empty()) violation("ledger", lv + ctx);
            if (asim::live_serials() != serials0) violation("leak", "after the call (and deleting its result) " + I((int64_t)asim::live_blocks() - (int64_t)live0) + " block(s) more are allocated than before:" + asim::describe_live(4) + ctx);
            int before = cut > 0 && (size_t)cut <= bytes.size() ? (unsigned char)bytes[(size_t)cut - 1] : -1, after = (cut >= 0 && (size_t)cut < bytes.size()) ? (unsigned char)bytes[(size_t)cut] : -1;
            if (!bytes.empty()) { stats.nontrivial++; stats.state_hashes.push_back(mix64(mix64((uint64_t)(byte_class(before) * 16 + byte_class(after)), (uint64_t)(entry * 4 + (term ? 1 : 0) + (cut >= 0 ? 2 : 0))), hash_str(lastfault + verdict))); }
            log.add("parse e" + I(entry) + " f" + I(flags) + " n" + I((int64_t)n) + " -> " + verdict);
            return;
        }
        // ---------------- C03
        if (prop == "C03") {
            release_input(in);
            static const char *vn[] = {"inside", "outside", "unspecified"};
            stats.probes[std::string("verdict_") + vn[cls.verdict]]++;
            if (cls.verdict == V_OUTSIDE && r) {
                std::string d;
                { size_t budget = 100000; std::string w; MVal *m = read_struct(r, budget, 0, w); d = m ? mv_dump(m, 120) : "<unreadable>"; mv_free(m); }
                // the tree is left allocated: the run ends here
                violation("accepted-malformed", "text outside the accepted dialect (" + cls.why + ") was accepted as " + d + ctx);
            }
            if (r) { cJSON_Delete(r); r = nullptr; }
            std::string lv = asim::take_violation();
            if (!lv.empty()) discard("ledger violation outside this property's oracles: " + lv);
            if (cls.verdict == V_OUTSIDE && asim::live_serials() != serials0) violation("rejection-leak", "rejecting the text left " + I((int64_t)asim::live_blocks() - (int64_t)live0) + " block(s) allocated:" + asim::describe_live(4) + ctx);
            if (cls.verdict == V_OUTSIDE) {
                // distinct by (fault kind, rejection reason, byte classes around the position where the recogniser stops, entry point, terminated?)
                size_t at = cls.why.find(" at offset ");
                size_t off = at == std::string::npos ? 0 : (size_t)strtoull(cls.why.c_str() + at + 11, nullptr, 10);
                int before = off > 0 && off <= buffer.size() ? (unsigned char)buffer[off - 1] : -1, after = off < buffer.size() ? (unsigned char)buffer[off] : -1;
                stats.nontrivial++;
                stats.state_hashes.push_back(mix64(mix64(hash_str(lastfault), hash_str(cls.why.substr(0, at))), (uint64_t)(byte_class(before) * 16 + byte_class(after)) * 16 + (uint64_t)entry * 2 + (req ? 1 : 0)));
            }
            log.add("parse e" + I(entry) + " f" + I(flags) + " n" + I((int64_t)n) + " " + vn[cls.verdict] + " -> " + verdict);
            return;
        }
        // ---------------- C10
        {
            std::string trailer_class = "n/a";
            if (r) {
                if (ep != nullptr) { release_input(in); violation("error-pointer-after-success", "cJSON_GetErrorPtr() is not NULL after a successful parse" + ctx); }
                if (wantend) {
                    if (end == (const char *)0x1) { release_input(in); violation("parse-end-unset", "return_parse_end was not written on success" + ctx); }
                    if (end < buf || end > buf + n) { release_input(in); violation("parse-end-range", "reported parse end lies outside the buffer (offset " + I((int64_t)(end - buf)) + " of " + I((int64_t)n) + ")" + ctx); }
                    // the bytes before the parse end alone must parse to an equal tree
                    std::string prefix(buf, (size_t)(end - buf));
                    release_input(in);
                    InputView in2 = present_input(prefix, true);
                    cJSON *r2 = cJSON_ParseWithLength(in2.ptr, in2.n);
                    release_input(in2);
                    in = present_input(buffer, true);
                    buf = in.ptr;
                    if (!r2) { cJSON_Delete(r); release_input(in); violation("parse-end-prefix", "the bytes before the reported parse end (" + I((int64_t)prefix.size()) + ") do not parse by themselves" + ctx); }
                    size_t b1 = 2000000, b2 = 2000000;
                    std::string w1, w2, ew;
                    MVal *m1 = read_struct(r, b1, 0, w1), *m2 = read_struct(r2, b2, 0, w2);
                    bool eq = m1 && m2 && mv_equal(m1, m2, EqOpts(), &ew);
                    mv_free(m1); mv_free(m2);
                    cJSON_Delete(r2);
                    if (!eq) { cJSON_Delete(r); release_input(in); violation("parse-end-prefix", "the bytes before the reported parse end parse to a different tree: " + ew + ctx); }
                }
            } else {
                if (n > 0) {
                    if (ep == nullptr || ep < buf || ep > buf + n - 1) { release_input(in); violation("error-pointer-range", std::string("after a failed parse cJSON_GetErrorPtr() ") + (ep ? "points outside the given buffer (offset " + I((int64_t)(ep - buf)) + " of " + I((int64_t)n) + ")" : "is NULL") + ctx); }
                } else if (ep != buf) { release_input(in); violation("error-pointer-range", "after a failed parse of an empty buffer the error pointer is not the buffer start" + ctx); }
                if (wantend && end != ep) { release_input(in); violation("error-pointer-mismatch", "return_parse_end and cJSON_GetErrorPtr() differ after a failed parse" + ctx); }
            }
            if (req && !alloc_failed) {
                // reference: the same bytes without the termination requirement
                const char *end0 = nullptr;
                cJSON *r0 = cJSON_ParseWithLengthOpts(buf, n, &end0, 0);
                if (!r0) {
                    if (r) { cJSON_Delete(r); release_input(in); violation("termination", "parsing succeeds with require_null_terminated although it fails without" + ctx); }
                    trailer_class = "no-value";
                } else {
                    size_t tb = (size_t)(end0 - buf);
                    bool any_gt20_before_nul = false, any_gt20 = false, has_nul = false, seen_nul = false;
                    for (size_t i = tb; i < n; i++) {
                        unsigned char c = (unsigned char)buffer[i];
                        if (c == 0) { has_nul = true; seen_nul = true; }
                        else if (c > 0x20) { any_gt20 = true; if (!seen_nul) any_gt20_before_nul = true; }
                    }
                    bool last_is_nul = n > tb && buffer[n - 1] == 0;
                    cJSON_Delete(r0);
                    if (!has_nul || any_gt20_before_nul) {
                        trailer_class = !has_nul ? "no-zero-byte" : "garbage";
                        if (r) { cJSON_Delete(r); release_input(in); violation("termination", std::string("parsing succeeds with require_null_terminated although the value is ") + (!has_nul ? "not followed by a zero byte inside the buffer" : "followed by non-whitespace bytes") + ctx); }
                    } else if (!any_gt20 && last_is_nul) {
                        trailer_class = "ws-then-zero";
                        if (!r) { release_input(in); violation("termination", "parsing fails with require_null_terminated although the value is followed only by whitespace and a zero byte" + ctx); }
                    } else trailer_class = "zero-then-more";
                }
                // the reference call rewrote the global error position; histories continue from that state
                stats.probes["trailer_" + trailer_class]++;
            }
            if (r) cJSON_Delete(r);
            release_input(in);
            std::string lv = asim::take_violation();
            if (!lv.empty()) discard("ledger violation outside this property's oracles: " + lv);
            stats.nontrivial++;
            stats.state_hashes.push_back(mix64(mix64((uint64_t)entry * 8 + (uint64_t)flags + (alloc_failed ? 64 : 0), hash_str(verdict + trailer_class)), hash_str(lastfault)));
            log.add("parse e" + I(entry) + " f" + I(flags) + " n" + I((int64_t)n) + " -> " + verdict + " trailer " + trailer_class);
        }
    }
    void run() {
        for (size_t i = 0; i < p.steps.size(); i++) {
            const Step &st = p.steps[i];
            step = (int)i;
            if (prog) { prog->step = step; prog->judged = 0; }
            stats.steps++;
            stats.op_counts[st.op]++;
            if (st.op == "doc") { bytes = make_doc(st.A(0), st.A(1), (int)st.A(2)); lastfault = "none"; have_doc = true; log.add("doc " + I((int64_t)bytes.size()) + " bytes"); }
            else if (st.op == "soup") { bytes = make_soup(st.A(0)); lastfault = "none(soup)"; have_doc = true; log.add("soup '" + show_bytes(bytes, 60) + "'"); }
            else if (st.op == "raw") { bytes = make_raw(st.A(0)); lastfault = "none(raw)"; have_doc = true; log.add("raw " + I((int64_t)bytes.size())); }
            else if (st.op == "lit") { bytes = st.S(0); lastfault = "none(lit)"; have_doc = true; log.add("lit '" + show_bytes(bytes, 60) + "'"); }
            else if (st.op == "wide") { bytes = make_wide(st.A(0)); lastfault = "none(wide)"; have_doc = true; stats.probes["wide_document"]++; log.add("wide " + I((int64_t)bytes.size())); }
            else if (st.op == "numtok") { bytes = make_numtok(st.A(0)); lastfault = "none(numtok)"; have_doc = true; stats.probes["long_number_token"]++; log.add("numtok '" + show_bytes(bytes, 80) + "'"); }
            else if (st.op == "deep") { bytes = make_deep(st.A(0), st.A(1), st.A(2)); lastfault = "none(deep)"; have_doc = true; stats.probes["deep_document"]++; log.add("deep " + I((int64_t)bytes.size())); }
            else if (st.op == "fault") {
                int kind = (int)((uint64_t)st.A(0) % NFAULT);
                if (apply_fault(bytes, kind, (uint64_t)st.A(1), (uint64_t)st.A(2), (uint64_t)st.A(3))) { stats.fault_counts[fault_name(kind)]++; lastfault = fault_name(kind); log.add(std::string("fault ") + fault_name(kind)); }
                else { stats.noops++; log.add(std::string("fault ") + fault_name(kind) + " (not applicable)"); }
            } else if (st.op == "parse") {
                stats.judged_steps++;
                if (p.sub < 1 && subcount == 0 && p.knob("enumerate_trunc", 0) && bytes.size() <= 4000) subcount = 2 * ((int64_t)bytes.size() + 1);
                do_parse(st);
            }
        }
    }
};
}  // namespace

RunResult run_store(const Plan &p, EventLog &log, RunStats &stats, Progress *prog) {
    RunResult rr;
    asim::reset_run((unsigned char)p.knob("fill", 0xA5), p.knob("realloc", 0) ? asim::RA_INPLACE : asim::RA_MOVE);
    cJSON_Hooks h;
    if (p.knob("hooks", 0)) { h.malloc_fn = asim::cust_malloc; h.free_fn = asim::cust_free; cJSON_InitHooks(&h); asim::set_epoch(asim::EP_BOTH); }
    else { cJSON_InitHooks(nullptr); asim::set_epoch(asim::EP_DEFAULT); }
    stats.fault_counts[p.knob("hooks", 0) ? "cfg_custom_hooks" : "cfg_default_allocator"]++;
    StoreRun sr{p, log, stats, prog};
    try {
        sr.run();
        if (asim::live_blocks() != 0) {
            Outcome o; o.kind = Outcome::DISCARD; o.msg = "blocks left at the end of a store run";
            if (p.property == "C01") { o.kind = Outcome::VIOLATION; o.oracle = "C01/leak"; o.msg = "blocks left allocated at the end of the run:" + asim::describe_live(4); }
            rr.outcome = o;
        }
    } catch (Stop &s) {
        rr.outcome = s.o;
    }
    cJSON_InitHooks(nullptr);
    asim::set_epoch(asim::EP_DEFAULT);
    rr.subcount = sr.subcount;
    rr.evaluations = sr.evals;
    return rr;
}
