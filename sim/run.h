#pragma once
#include "plan.h"
#include "world.h"

struct Progress {  // shared with the driver for crash attribution (MAP_SHARED file)
    volatile int64_t run, sub;
    volatile int step;
    volatile int judged;
    volatile int phase;  // 0 idle, 1 generating, 2 executing
};
struct RunResult {
    Outcome outcome;
    int64_t subcount = 0;     // number of sub-executions this scenario offers (enumerating engines)
    uint64_t evaluations = 0; // library calls judged in this execution
};
WorldCfg cfg_for(const std::string &property);
RunResult run_plan(const Plan &p, EventLog &log, RunStats &stats, Progress *prog);
// engines
RunResult run_hist(const Plan &p, EventLog &log, RunStats &stats, Progress *prog);
RunResult run_afail(const Plan &p, EventLog &log, RunStats &stats, Progress *prog);
RunResult run_store(const Plan &p, EventLog &log, RunStats &stats, Progress *prog);
RunResult run_sched(const Plan &p, EventLog &log, RunStats &stats, Progress *prog);
Plan gen_store_plan(const std::string &prop, uint64_t seed, int64_t run);
Plan gen_afail_plan(const std::string &prop, uint64_t seed, int64_t run);
Plan gen_sched_plan(const std::string &prop, uint64_t seed, int64_t run);
