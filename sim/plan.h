// Plan = explicit list of steps with fully resolved arguments. Execution is a
// pure function of the plan and the library code. The text form is the replay file.
#pragma once
#include <cstdint>
#include <map>
#include <string>
#include <vector>

struct Step {
    int task = 0;
    std::string op;
    std::vector<int64_t> a;      // integer arguments (free integers, interpreted modulo live state)
    std::vector<std::string> s;  // byte-string arguments
    int64_t A(size_t i, int64_t dflt = 0) const { return i < a.size() ? a[i] : dflt; }
    const std::string &S(size_t i) const { static const std::string e; return i < s.size() ? s[i] : e; }
};

struct Plan {
    std::string engine;    // hist | afail | store | cap | sched
    std::string property;  // whose oracles give the verdict
    uint64_t seed = 0;
    int64_t run = 0;
    int64_t sub = -1;      // sub-execution inside an enumerating run (-1: none)
    std::map<std::string, int64_t> knobs;
    std::vector<Step> steps;
    std::vector<int> sched;  // engine sched: task chosen at each yield (mod runnable)
    std::string expect;      // written by the minimiser: "<property>/<oracle>"
    int64_t knob(const std::string &k, int64_t d = 0) const {
        auto it = knobs.find(k);
        return it == knobs.end() ? d : it->second;
    }
};

std::string hex_encode(const std::string &b);
bool hex_decode(const std::string &h, std::string &out);
std::string plan_to_text(const Plan &p);
bool plan_from_text(const std::string &text, Plan &p, std::string &err);
std::string step_to_text(const Step &st);
// printable rendering of bytes for logs (escapes non-printables)
std::string show_bytes(const std::string &b, size_t maxlen = 200);
