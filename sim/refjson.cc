#include "refjson.h"
#include <cmath>
#include <cstdio>
#include <cstdlib>
#include <cstring>

namespace {
struct Reader {
    const unsigned char *b;
    size_t n;        // bytes that belong to the text as the reader sees it
    size_t pos = 0;
    bool lenient;
    bool nul_is_ws;  // length mode: zero bytes inside the declared buffer count as bytes <= 0x20
    // flags
    bool used_leniency = false, has_u0000 = false, ambiguous_number = false, long_number = false, bad_utf8 = false, too_deep = false;
    std::string why;
    size_t depth = 0;

    bool at_end() const { return pos >= n; }
    void skip_ws() {
        while (pos < n) {
            unsigned char c = b[pos];
            if (c == ' ' || c == '\t' || c == '\n' || c == '\r') { pos++; continue; }
            if (lenient && c <= 0x20 && (c != 0 || nul_is_ws)) { used_leniency = true; pos++; continue; }
            break;
        }
    }
    bool fail(const std::string &w) { if (why.empty()) why = w + " at offset " + std::to_string(pos); return false; }

    static int hexv(unsigned char c) {
        if (c >= '0' && c <= '9') return c - '0';
        if (c >= 'a' && c <= 'f') return c - 'a' + 10;
        if (c >= 'A' && c <= 'F') return c - 'A' + 10;
        return -1;
    }
    bool hex4(size_t at, unsigned &out) {
        if (at + 4 > n) return false;
        unsigned v = 0;
        for (int i = 0; i < 4; i++) { int h = hexv(b[at + (size_t)i]); if (h < 0) return false; v = v * 16 + (unsigned)h; }
        out = v;
        return true;
    }
    static void put_utf8(std::string &s, unsigned cp) {
        if (cp < 0x80) s.push_back((char)cp);
        else if (cp < 0x800) { s.push_back((char)(0xC0 | (cp >> 6))); s.push_back((char)(0x80 | (cp & 0x3F))); }
        else if (cp < 0x10000) { s.push_back((char)(0xE0 | (cp >> 12))); s.push_back((char)(0x80 | ((cp >> 6) & 0x3F))); s.push_back((char)(0x80 | (cp & 0x3F))); }
        else { s.push_back((char)(0xF0 | (cp >> 18))); s.push_back((char)(0x80 | ((cp >> 12) & 0x3F))); s.push_back((char)(0x80 | ((cp >> 6) & 0x3F))); s.push_back((char)(0x80 | (cp & 0x3F))); }
    }
    bool read_string(std::string &out) {
        if (at_end() || b[pos] != '"') return fail("expected string");
        pos++;
        for (;;) {
            if (at_end()) return fail("unterminated string");
            unsigned char c = b[pos];
            if (c == '"') { pos++; return true; }
            if (c == '\\') {
                if (pos + 1 >= n) return fail("unterminated escape");
                unsigned char e = b[pos + 1];
                switch (e) {
                    case '"': out.push_back('"'); pos += 2; break;
                    case '\\': out.push_back('\\'); pos += 2; break;
                    case '/': out.push_back('/'); pos += 2; break;
                    case 'b': out.push_back('\b'); pos += 2; break;
                    case 'f': out.push_back('\f'); pos += 2; break;
                    case 'n': out.push_back('\n'); pos += 2; break;
                    case 'r': out.push_back('\r'); pos += 2; break;
                    case 't': out.push_back('\t'); pos += 2; break;
                    case 'u': {
                        unsigned u1 = 0;
                        if (!hex4(pos + 2, u1)) return fail("\\u escape that is not four hex digits");
                        if (u1 >= 0xDC00 && u1 <= 0xDFFF) return fail("unpaired low surrogate");
                        if (u1 >= 0xD800 && u1 <= 0xDBFF) {
                            unsigned u2 = 0;
                            if (pos + 12 > n || b[pos + 6] != '\\' || b[pos + 7] != 'u') return fail("unpaired high surrogate");
                            if (!hex4(pos + 8, u2)) return fail("high surrogate followed by a malformed \\u escape");
                            if (u2 < 0xDC00 || u2 > 0xDFFF) return fail("high surrogate not followed by a low surrogate");
                            put_utf8(out, 0x10000 + (((u1 & 0x3FF) << 10) | (u2 & 0x3FF)));
                            pos += 12;
                        } else {
                            if (u1 == 0) has_u0000 = true;
                            put_utf8(out, u1);
                            pos += 6;
                        }
                        break;
                    }
                    default: return fail("unknown escape");
                }
                continue;
            }
            if (c < 0x20) {
                if (!lenient) return fail("raw control byte in string");
                used_leniency = true;
            }
            out.push_back((char)c);
            pos++;
        }
    }
    // strict RFC 8259 number starting at pos: returns length or 0
    size_t strict_number_len() const {
        size_t p = pos;
        if (p < n && b[p] == '-') p++;
        if (p >= n) return 0;
        if (b[p] == '0') p++;
        else if (b[p] >= '1' && b[p] <= '9') { while (p < n && b[p] >= '0' && b[p] <= '9') p++; }
        else return 0;
        if (p < n && b[p] == '.') {
            size_t q = p + 1;
            if (q < n && b[q] >= '0' && b[q] <= '9') { while (q < n && b[q] >= '0' && b[q] <= '9') q++; p = q; }
            else return p - pos;  // "1." : the strict token ends before the point
        }
        if (p < n && (b[p] == 'e' || b[p] == 'E')) {
            size_t q = p + 1;
            if (q < n && (b[q] == '+' || b[q] == '-')) q++;
            if (q < n && b[q] >= '0' && b[q] <= '9') { while (q < n && b[q] >= '0' && b[q] <= '9') q++; p = q; }
        }
        return p - pos;
    }
    static bool in_alphabet(unsigned char c) { return (c >= '0' && c <= '9') || c == '+' || c == '-' || c == '.' || c == 'e' || c == 'E'; }
    // how many bytes libc strtod converts from a <=63 byte window; alphabet_only: window stops at the first byte outside [0-9+-.eE]
    size_t strtod_len(bool alphabet_only, double *val) const {
        char tmp[64];
        size_t i = 0;
        for (; i < 63 && pos + i < n; i++) {
            unsigned char c = b[pos + i];
            if (c == 0) break;
            if (alphabet_only && !in_alphabet(c)) break;
            tmp[i] = (char)c;
        }
        tmp[i] = 0;
        char *endp = nullptr;
        double d = strtod(tmp, &endp);
        if (val) *val = d;
        return (size_t)(endp - tmp);
    }
    size_t alphabet_run() const { size_t i = 0; while (pos + i < n && in_alphabet(b[pos + i])) i++; return i; }

    // how many bytes of the whole alphabet run libc strtod converts (no window)
    size_t strtod_full_len(size_t run, double *val) const {
        std::string t((const char *)b + pos, run);
        char *endp = nullptr;
        double d = strtod(t.c_str(), &endp);
        if (val) *val = d;
        return (size_t)(endp - t.c_str());
    }
    MVal *read_number() {
        size_t ls = strict_number_len();
        size_t run = alphabet_run();
        double va = 0, vb = 0;
        size_t la = strtod_len(true, &va), lb = strtod_len(false, &vb);
        if (run > 63) {
            // beyond the documented 63-character limit. A token that is a number under the strict grammar or as the C library
            // reads it (whole token) is left unspecified; a token that is malformed under every reading is consumed up to
            // where the C library stops, and the bytes after it decide (inside a container they can never continue a value)
            double vf = 0;
            size_t lf = strtod_full_len(run, &vf);
            if (ls == run || lf == run) { long_number = true; pos += run; return mv_num(vf); }
            if (lf == 0) { fail("number without digits"); return nullptr; }
            used_leniency = true;
            pos += lf;
            return mv_num(vf);
        }
        if (ls > 0 && ls == run && lb == ls) {
            // strict number, unambiguous
            pos += ls;
            return mv_num(va);
        }
        if (ls > 0 && ls == run && lb != ls) {
            // strict token followed by bytes strtod would also eat when given the raw text (e.g. "0x10", "1p3"): two readings
            ambiguous_number = true;
            pos += ls;
            return mv_num(va);
        }
        if (!lenient) { fail("number is not a strict RFC 8259 number"); return nullptr; }
        if (la == 0 && lb == 0) { fail("number without digits"); return nullptr; }
        used_leniency = true;
        if (la != lb) ambiguous_number = true;
        if (la == 0) { ambiguous_number = true; fail("number spelling only the raw C library reading accepts"); return nullptr; }
        pos += la;
        return mv_num(va);
    }
    bool literal(const char *lit) {
        size_t l = strlen(lit);
        if (pos + l <= n && memcmp(b + pos, lit, l) == 0) { pos += l; return true; }
        return false;
    }
    MVal *read_value() {
        if (at_end()) { fail("unexpected end of text"); return nullptr; }
        unsigned char c = b[pos];
        if (c == '"') {
            std::string s;
            if (!read_string(s)) return nullptr;
            return mv_str(s);
        }
        if (c == '-' || (c >= '0' && c <= '9')) return read_number();
        if (c == '[' || c == '{') {
            if (depth >= CJSON_NESTING_LIMIT) { too_deep = true; fail("nesting deeper than CJSON_NESTING_LIMIT"); return nullptr; }
            depth++;
            MVal *m = (c == '[') ? read_array() : read_object();
            depth--;
            return m;
        }
        if (literal("null")) return mv_new(T_NULL);
        if (literal("true")) return mv_new(T_TRUE);
        if (literal("false")) return mv_new(T_FALSE);
        // not a JSON value start; would the C library's raw number reading take it? (nan, inf, .5, +1 ...)
        if (lenient) {
            double v;
            if (strtod_len(false, &v) > 0) { ambiguous_number = true; fail("non-JSON number spelling the C library accepts"); return nullptr; }
        }
        fail("not a JSON value");
        return nullptr;
    }
    MVal *read_array() {
        pos++;  // [
        MVal *m = mv_new(T_ARRAY);
        skip_ws();
        if (!at_end() && b[pos] == ']') { pos++; return m; }
        for (;;) {
            skip_ws();
            MVal *k = read_value();
            if (!k) { mv_free(m); return nullptr; }
            k->parent = m;
            m->kids.push_back(k);
            skip_ws();
            if (at_end()) { fail("unterminated array"); mv_free(m); return nullptr; }
            if (b[pos] == ',') { pos++; continue; }
            if (b[pos] == ']') { pos++; return m; }
            fail("expected , or ] in array");
            mv_free(m);
            return nullptr;
        }
    }
    MVal *read_object() {
        pos++;  // {
        MVal *m = mv_new(T_OBJECT);
        skip_ws();
        if (!at_end() && b[pos] == '}') { pos++; return m; }
        for (;;) {
            skip_ws();
            if (at_end() || b[pos] != '"') { fail("object key is not a string"); mv_free(m); return nullptr; }
            std::string key;
            if (!read_string(key)) { mv_free(m); return nullptr; }
            skip_ws();
            if (at_end() || b[pos] != ':') { fail("expected : after key"); mv_free(m); return nullptr; }
            pos++;
            skip_ws();
            MVal *k = read_value();
            if (!k) { mv_free(m); return nullptr; }
            k->keystate = K_KNOWN;
            k->key = key;
            k->parent = m;
            m->kids.push_back(k);
            skip_ws();
            if (at_end()) { fail("unterminated object"); mv_free(m); return nullptr; }
            if (b[pos] == ',') { pos++; continue; }
            if (b[pos] == '}') { pos++; return m; }
            fail("expected , or } in object");
            mv_free(m);
            return nullptr;
        }
    }
};
static bool utf8_ok(const unsigned char *s, size_t n) {
    size_t i = 0;
    while (i < n) {
        unsigned char c = s[i];
        if (c < 0x80) { i++; continue; }
        size_t len; unsigned cp;
        if ((c & 0xE0) == 0xC0) { len = 2; cp = c & 0x1F; }
        else if ((c & 0xF0) == 0xE0) { len = 3; cp = c & 0x0F; }
        else if ((c & 0xF8) == 0xF0) { len = 4; cp = c & 0x07; }
        else return false;
        if (i + len > n) return false;
        for (size_t k = 1; k < len; k++) { if ((s[i + k] & 0xC0) != 0x80) return false; cp = (cp << 6) | (s[i + k] & 0x3F); }
        if ((len == 2 && cp < 0x80) || (len == 3 && cp < 0x800) || (len == 4 && cp < 0x10000)) return false;
        if (cp > 0x10FFFF || (cp >= 0xD800 && cp <= 0xDFFF)) return false;
        i += len;
    }
    return true;
}
}  // namespace

bool valid_utf8(const std::string &s) { return utf8_ok((const unsigned char *)s.data(), s.size()); }

void classify_text(const unsigned char *b, size_t n, bool cstring, bool require_term, ReadResult &out) {
    // The text proper: for the C-string entry points everything before the first zero byte.
    size_t textn = n;
    if (cstring) { textn = 0; while (textn < n && b[textn] != 0) textn++; }
    Reader r;
    r.b = b; r.n = textn; r.lenient = true; r.nul_is_ws = !cstring;
    if (r.n >= 3 && b[0] == 0xEF && b[1] == 0xBB && b[2] == 0xBF) r.pos = 3;
    r.skip_ws();
    MVal *v = r.read_value();
    out.used_leniency = r.used_leniency;
    out.has_u0000 = r.has_u0000;
    out.ambiguous_number = r.ambiguous_number;
    out.why = r.why;
    if (!v) {
        out.complete = false;
        // In length mode a zero byte could also be read as the end of the text (C-string reading). The text is
        // outside the dialect only if it is invalid under that reading too.
        bool outside = true;
        if (!cstring) {
            size_t z = 0; while (z < n && b[z] != 0) z++;
            if (z < n) {
                Reader r2; r2.b = b; r2.n = z; r2.lenient = true; r2.nul_is_ws = false;
                if (r2.n >= 3 && b[0] == 0xEF && b[1] == 0xBB && b[2] == 0xBF) r2.pos = 3;
                r2.skip_ws();
                MVal *v2 = r2.read_value();
                if (v2) { outside = false; mv_free(v2); }
                if (r2.ambiguous_number || r2.long_number || r2.has_u0000) outside = false;
            }
        }
        if (r.ambiguous_number || r.long_number || r.has_u0000) outside = false;
        if (r.too_deep) outside = true;
        out.verdict = outside ? V_OUTSIDE : V_UNSPECIFIED;
        return;
    }
    out.complete = true;
    out.end = r.pos;
    out.value = v;
    bool unspecified = r.ambiguous_number || r.long_number || r.has_u0000;
    // trailer: declared bytes after the value
    if (require_term) {
        // bytes after the value inside the declared buffer (for C strings: the rest of the string and its terminator)
        size_t tb = r.pos, te = n;
        bool any_gt20_before_nul = false, any_gt20 = false, has_nul = false, seen_nul = false;
        for (size_t i = tb; i < te; i++) {
            if (b[i] == 0) { has_nul = true; seen_nul = true; }
            else if (b[i] > 0x20) { any_gt20 = true; if (!seen_nul) any_gt20_before_nul = true; }
        }
        bool last_is_nul = te > tb && b[te - 1] == 0;
        if (!has_nul || any_gt20_before_nul) { out.trailer_demands_failure = true; }
        else if (!any_gt20 && last_is_nul) { out.trailer_demands_success = true; }
        // else: zero byte followed by further bytes: the statement does not settle it
        if (out.trailer_demands_failure) {
            out.verdict = unspecified ? V_UNSPECIFIED : V_OUTSIDE;
            if (out.why.empty()) out.why = "value not followed by whitespace and a zero byte";
        } else if (out.trailer_demands_success) out.verdict = unspecified ? V_UNSPECIFIED : V_INSIDE;
        else out.verdict = V_UNSPECIFIED;
    } else {
        out.verdict = unspecified ? V_UNSPECIFIED : V_INSIDE;
    }
    // strictness of the whole text (used by callers that want to know the value is pinned down by RFC 8259)
    {
        Reader s; s.b = b; s.n = textn; s.lenient = false; s.nul_is_ws = false;
        if (s.n >= 3 && b[0] == 0xEF && b[1] == 0xBB && b[2] == 0xBF) s.pos = 3;
        s.skip_ws();
        MVal *sv = s.read_value();
        if (sv) {
            s.skip_ws();
            out.strict = s.at_end() && !s.has_u0000 && !s.long_number && !s.ambiguous_number && utf8_ok(b, textn);
            mv_free(sv);
        }
    }
}

MVal *strict_read(const std::string &text, std::string &why) {
    Reader s;
    s.b = (const unsigned char *)text.data(); s.n = text.size(); s.lenient = false; s.nul_is_ws = false;
    if (!utf8_ok(s.b, s.n)) { why = "text is not valid UTF-8"; return nullptr; }
    s.skip_ws();
    MVal *v = s.read_value();
    if (!v) { why = s.why; return nullptr; }
    s.skip_ws();
    if (!s.at_end()) { why = "trailing bytes after the value at offset " + std::to_string(s.pos); mv_free(v); return nullptr; }
    if (s.ambiguous_number) { /* strict token followed by junk would have failed the at_end test */ }
    return v;
}

// ---------------------------------------------------------------- serialiser
namespace {
struct Ser {
    Rng &r;
    const SpellOpts &o;
    std::string out;
    void ws() {
        if (o.ws == 0) return;
        unsigned p = o.ws == 1 ? 1 : 3;
        while (r.chance(p, 6)) { static const char w[] = " \t\n\r"; out.push_back(w[r.below(4)]); }
    }
    void hex4(unsigned v, bool upper) {
        char t[8];
        snprintf(t, sizeof t, upper ? "%04X" : "%04x", v);
        out += "\\u"; out += t;
    }
    void str(const std::string &s) {
        out.push_back('"');
        size_t i = 0;
        while (i < s.size()) {
            unsigned char c = (unsigned char)s[i];
            // decode one UTF-8 scalar if well-formed
            unsigned cp = c; size_t len = 1;
            if (c >= 0x80) {
                size_t l = 0; unsigned v = 0;
                if ((c & 0xE0) == 0xC0) { l = 2; v = c & 0x1F; } else if ((c & 0xF0) == 0xE0) { l = 3; v = c & 0x0F; } else if ((c & 0xF8) == 0xF0) { l = 4; v = c & 0x07; }
                bool ok = l && i + l <= s.size();
                for (size_t k = 1; ok && k < l; k++) { if (((unsigned char)s[i + k] & 0xC0) != 0x80) ok = false; else v = (v << 6) | ((unsigned char)s[i + k] & 0x3F); }
                if (ok && ((l == 2 && v < 0x80) || (l == 3 && v < 0x800) || (l == 4 && v < 0x10000) || v > 0x10FFFF || (v >= 0xD800 && v <= 0xDFFF))) ok = false;
                if (ok) { cp = v; len = l; } else { out.push_back((char)c); i++; continue; }  // stray byte: raw
            }
            bool must = cp < 0x20 || cp == '"' || cp == '\\';
            bool esc = must || (o.escapes && r.chance(1, 6));
            if (!esc) { out.append(s, i, len); i += len; continue; }
            bool shortform = false;
            char sc = 0;
            switch (cp) {
                case '"': sc = '"'; break; case '\\': sc = '\\'; break; case '/': sc = '/'; break;
                case '\b': sc = 'b'; break; case '\f': sc = 'f'; break; case '\n': sc = 'n'; break; case '\r': sc = 'r'; break; case '\t': sc = 't'; break;
                default: break;
            }
            if (sc && (!o.escapes || r.chance(3, 4))) shortform = true;
            if (shortform) { out.push_back('\\'); out.push_back(sc); }
            else if (cp < 0x10000) hex4(cp, r.chance(1, 2));
            else { unsigned v = cp - 0x10000; hex4(0xD800 + (v >> 10), r.chance(1, 2)); hex4(0xDC00 + (v & 0x3FF), r.chance(1, 2)); }
            i += len;
        }
        out.push_back('"');
    }
    void num(double d) {
        char t[80];
        bool isint = std::fabs(d) < 1e15 && d == std::floor(d);
        if (isint && !(d == 0 && std::signbit(d))) {
            long long v = (long long)d;
            unsigned k = o.numspell ? (unsigned)r.below(8) : 0;
            switch (k) {
                case 1: snprintf(t, sizeof t, "%lld.0", v); break;
                case 2: snprintf(t, sizeof t, "%llde0", v); break;
                case 3: snprintf(t, sizeof t, "%lld.000E+0", v); break;
                case 4: if (v != 0) snprintf(t, sizeof t, "%lld0e-1", v); else snprintf(t, sizeof t, "0e5"); break;
                case 5: { snprintf(t, sizeof t, "%lld.", v); size_t l = strlen(t); while (l < 63) t[l++] = '0'; t[l] = 0; break; }  // 63-character literal
                default: snprintf(t, sizeof t, "%lld", v);
            }
            out += t;
            return;
        }
        snprintf(t, sizeof t, "%.17g", d);
        if (o.numspell && r.chance(1, 3)) for (char *p = t; *p; p++) if (*p == 'e') *p = 'E';
        out += t;
    }
    void val(const MVal *m) {
        switch (view_type(m)) {
            case T_NULL: out += "null"; break;
            case T_TRUE: out += "true"; break;
            case T_FALSE: out += "false"; break;
            case T_NUMBER: num(m->num); break;
            case T_STRING: str(view_str(m)); break;
            case T_RAW: out += view_str(m); break;
            case T_ARRAY: {
                out.push_back('[');
                bool first = true;
                for (const MVal *k : view_kids(m)) { if (!first) out.push_back(','); first = false; ws(); val(k); ws(); }
                if (first) ws();
                out.push_back(']');
                break;
            }
            case T_OBJECT: {
                out.push_back('{');
                bool first = true;
                for (const MVal *k : view_kids(m)) { if (!first) out.push_back(','); first = false; ws(); str(k->key); ws(); out.push_back(':'); ws(); val(k); ws(); }
                if (first) ws();
                out.push_back('}');
                break;
            }
            default: out += "null";
        }
    }
};
}  // namespace
std::string serialize_value(const MVal *m, Rng &r, const SpellOpts &o) {
    Ser s{r, o, std::string()};
    if (o.bom) s.out += "\xEF\xBB\xBF";
    s.ws();
    s.val(m);
    s.ws();
    return s.out;
}
std::string strip_ws(const std::string &t) {
    std::string o;
    bool in = false;
    for (size_t i = 0; i < t.size(); i++) {
        char c = t[i];
        if (in) {
            o.push_back(c);
            if (c == '\\' && i + 1 < t.size()) { o.push_back(t[++i]); continue; }
            if (c == '"') in = false;
            continue;
        }
        if (c == '"') { in = true; o.push_back(c); continue; }
        if (c == ' ' || c == '\t' || c == '\n' || c == '\r') continue;
        o.push_back(c);
    }
    return o;
}
