// cJSON_Utils ops: sort (C19), JSON Patch (C16), patch generation (C17), merge
// patch (C18), pointer helpers, plus compare/minify (C20 traces), duplicate
// oracles (C11) and hook epochs (C14).
#include <algorithm>
#include <cmath>
#include <cstring>
#include "profiles.h"
#include "refjson.h"
#include "refrfc.h"
#include "world.h"

extern "C" {
#include "cJSON_Utils.h"
}

static std::string I(int64_t v) { return std::to_string(v); }
static std::string B(bool b) { return b ? "true" : "false"; }
static std::string fold(const std::string &s) { std::string o = s; for (auto &c : o) if (c >= 'A' && c <= 'Z') c = (char)(c - 'A' + 'a'); return o; }
static bool all_keys_known(const MVal *c) { for (const MVal *m : c->kids) if (m->keystate != K_KNOWN) return false; return true; }
struct TextGuard { char *p; explicit TextGuard(char *x) : p(x) {} ~TextGuard() { if (p) cJSON_free(p); } TextGuard(const TextGuard &) = delete; };

// After a call that may permute object members (sort, patch test, generation): re-read the child
// order of every owned container from the library by node identity. Members must be exactly the
// same nodes; only their order may change. Returns false with why if they are not a permutation.
static bool adopt_permutation(MVal *m, std::string &why) {
    if (m->refkind != R_NONE || !m->is_container()) return true;
    std::vector<MVal *> neworder;
    const cJSON *c = m->c->child;
    size_t guard = 0;
    while (c) {
        if (guard++ > m->kids.size()) { why = "container holds more nodes than before (chain does not end)"; return false; }
        MVal *hit = nullptr;
        for (MVal *k : m->kids) if (k->c == c) { hit = k; break; }
        if (!hit) { why = "container holds a node that was not a member before"; return false; }
        if (std::find(neworder.begin(), neworder.end(), hit) != neworder.end()) { why = "a member appears twice"; return false; }
        neworder.push_back(hit);
        c = c->next;
    }
    if (neworder.size() != m->kids.size()) { why = "container lost " + I((int64_t)(m->kids.size() - neworder.size())) + " member(s)"; return false; }
    m->kids = neworder;
    for (MVal *k : m->kids) if (!adopt_permutation(k, why)) return false;
    return true;
}
// Replace the model of a slot by what the library tree now holds (values adopted), rebinding nodes.
static bool readopt_slot(World &w, int slot, cJSON *root, std::string &why) {
    size_t budget = 4000000;
    MVal *nm = read_struct(root, budget, 0, why, true);
    if (!nm) return false;
    if (w.slots[slot]) w.model_delete(w.slots[slot]);
    w.slots[slot] = nm;
    return true;
}

static void collect_blocks(const cJSON *n, std::vector<const void *> &owned, std::vector<const void *> &constkeys, size_t &budget);
static long owned_block_count(const cJSON *n) {
    std::vector<const void *> o, c;
    size_t budget = 4000000;
    collect_blocks(n, o, c, budget);
    return (long)o.size();
}

// ------------------------------------------------------------------ C19 sort
static bool key_le(const std::string &a, const std::string &b, bool cs) {
    if (cs) return a.compare(b) <= 0;
    return fold(a).compare(fold(b)) <= 0;
}
DEFOP(sort) {
    int oslot = -1;
    MVal *o = w.pick(st.A(0), st.A(1), [&](MVal *m) { return m->type == T_OBJECT && m->refkind == R_NONE && w.mutable_node(m) && all_keys_known(m); }, &oslot);
    if (!o) { w.noop(st, "no object"); return; }
    w.mark_utils(oslot);
    bool cs = st.A(2) & 1;
    if (cs) cJSONUtils_SortObjectCaseSensitive(o->c); else cJSONUtils_SortObject(o->c);
    std::string why;
    // same nodes, new order (only this object's own member list may change)
    {
        std::vector<MVal *> neworder;
        const cJSON *c = o->c->child;
        size_t guard = 0;
        while (c) {
            if (guard++ > o->kids.size()) { w.mismatch("sort-permutation", "after sorting the object holds more nodes than before (chain does not end)"); return; }
            MVal *hit = nullptr;
            for (MVal *k : o->kids) if (k->c == c) { hit = k; break; }
            if (!hit) { w.mismatch("sort-permutation", "after sorting the object holds a node that was not a member"); return; }
            if (std::find(neworder.begin(), neworder.end(), hit) != neworder.end()) { w.mismatch("sort-permutation", "a member appears twice after sorting"); return; }
            neworder.push_back(hit);
            c = c->next;
        }
        if (neworder.size() != o->kids.size()) { w.mismatch("sort-permutation", "sorting lost " + I((int64_t)(o->kids.size() - neworder.size())) + " of " + I((int64_t)o->kids.size()) + " members"); return; }
        o->kids = neworder;
    }
    for (size_t i = 1; i < o->kids.size(); i++)
        if (!key_le(o->kids[i - 1]->key, o->kids[i]->key, cs)) { w.mismatch("sort-order", std::string("keys are not non-decreasing in ") + (cs ? "byte" : "case-folded") + " order: '" + show_bytes(o->kids[i - 1]->key, 30) + "' before '" + show_bytes(o->kids[i]->key, 30) + "'"); return; }
    // idempotent: a second sort changes nothing (members with equal keys may swap: the key sequence is what must not change)
    std::vector<const cJSON *> before;
    for (MVal *k : o->kids) before.push_back(k->c);
    bool equal_keys = false;
    for (size_t i = 1; i < o->kids.size(); i++) if (key_le(o->kids[i]->key, o->kids[i - 1]->key, cs)) equal_keys = true;
    if (cs) cJSONUtils_SortObjectCaseSensitive(o->c); else cJSONUtils_SortObject(o->c);
    {
        std::string pw;
        if (!adopt_permutation(o, pw)) { w.mismatch("sort-permutation", "after a second sort: " + pw); return; }
        for (size_t i = 0; i < before.size(); i++) {
            if (!equal_keys && o->kids[i]->c != before[i]) { w.mismatch("sort-idempotent", "a second sort changed the member order although all keys are distinct"); return; }
        }
        for (size_t i = 1; i < o->kids.size(); i++)
            if (!key_le(o->kids[i - 1]->key, o->kids[i]->key, cs)) { w.mismatch("sort-idempotent", "after a second sort the keys are no longer non-decreasing"); return; }
    }
    if (o->kids.size() >= 3) w.mark_nontrivial();
    { bool dup = false; for (size_t i = 1; i < o->kids.size(); i++) if (o->kids[i]->key == o->kids[i - 1]->key) dup = true; if (dup) w.stats.probes["sort_duplicate_keys"]++; }
    w.stats.probes["sorted"]++;
    w.log.add(std::string("sort ") + (cs ? "cs" : "ci") + " size " + I((int64_t)o->kids.size()));
}
// C19: printing a sorted object gives the same bytes as printing a twin built through the constructors
DEFOP(twinprint) {
    MVal *o = w.pick(st.A(0), st.A(1), [&](MVal *m) { return m->type == T_OBJECT && m->refkind == R_NONE && all_keys_known(m); });
    if (!o) { w.noop(st, "no object"); return; }
    for (MVal *k : o->kids) if (k->refkind != R_NONE || k->type == T_INVALID) { w.noop(st, "reference member"); return; }
    cJSON *twin = cJSON_CreateObject();
    if (!twin) { w.noop(st, "alloc"); return; }
    struct Del { cJSON *c; ~Del() { cJSON_Delete(c); } } dl{twin};
    for (MVal *k : o->kids) {
        cJSON *d = cJSON_Duplicate(k->c, 1);
        bool added = d && (k->constkey && k->c->string ? cJSON_AddItemToObjectCS(twin, k->c->string, d) : cJSON_AddItemToObject(twin, k->key.c_str(), d));
        if (!added) { cJSON_Delete(d); w.noop(st, "alloc"); return; }
    }
    for (int fmt = 0; fmt < 2; fmt++) {
        char *a = fmt ? cJSON_Print(o->c) : cJSON_PrintUnformatted(o->c);
        TextGuard ga(a);
        char *b = fmt ? cJSON_Print(twin) : cJSON_PrintUnformatted(twin);
        TextGuard gb(b);
        if (!b) { w.noop(st, "twin print failed"); return; }
        if (!a) { w.mismatch("print-after-sort", "printing the object returned NULL"); return; }
        if (strcmp(a, b) != 0) { w.mismatch("print-after-sort", std::string("object prints differently from a freshly built twin with the same members: '") + show_bytes(a, 100) + "' vs '" + show_bytes(b, 100) + "'"); return; }
    }
    w.log.add("twinprint ok size " + I((int64_t)o->kids.size()));
}

// ------------------------------------------------------------------ C16 patch assembly
static MVal *mkobj() { return mv_new(T_OBJECT); }
static void put(MVal *o, const std::string &k, MVal *v) { v->keystate = K_KNOWN; v->key = k; mv_add_kid(o, v, o->kids.size()); }
static bool doc_ok_for_patch(const MVal *m, bool allow_refs = false) {  // distinct keys per object, no raw; reference nodes only on request
    if ((m->refkind != R_NONE && !allow_refs) || m->type == T_RAW || m->type == T_INVALID) return false;
    if (m->refkind == R_CHILD) return false;
    if (m->type == T_NUMBER && !std::isfinite(m->num)) return false;
    auto kids = view_kids(m);
    if (view_type(m) == T_OBJECT) {
        for (size_t i = 0; i < kids.size(); i++) {
            if (kids[i]->keystate != K_KNOWN) return false;
            for (size_t j = 0; j < i; j++) if (kids[i]->key == kids[j]->key) return false;
        }
    }
    for (const MVal *k : kids) if (!doc_ok_for_patch(k, allow_refs)) return false;
    return true;
}
static bool has_ref_nodes(MVal *m) {
    std::vector<MVal *> all;
    mv_collect(m, all);
    for (MVal *x : all) if (x->refkind != R_NONE) return true;
    return false;
}
// A document with the same value as an existing one, assembled through the constructors instead of the parser or Duplicate:
// equal documents of different provenance are equal documents.
static cJSON *construct(const MVal *m) {
    cJSON *c = nullptr;
    switch (view_type(m)) {
        case T_NULL: c = cJSON_CreateNull(); break;
        case T_TRUE: c = cJSON_CreateTrue(); break;
        case T_FALSE: c = cJSON_CreateFalse(); break;
        case T_NUMBER: c = cJSON_CreateNumber(m->num); break;
        case T_STRING: c = cJSON_CreateString(view_str(m).c_str()); break;
        case T_ARRAY: c = cJSON_CreateArray(); break;
        case T_OBJECT: c = cJSON_CreateObject(); break;
        default: return nullptr;
    }
    if (!c) return nullptr;
    for (const MVal *k : view_kids(m)) {
        cJSON *kc = construct(k);
        bool ok = kc && (view_type(m) == T_OBJECT ? cJSON_AddItemToObject(c, k->key.c_str(), kc) : cJSON_AddItemToArray(c, kc));
        if (!ok) { cJSON_Delete(kc); cJSON_Delete(c); return nullptr; }
    }
    return c;
}
DEFOP(rebuild) {
    int s = w.live_slot(st.A(0));
    int slot = w.free_slot();
    if (s < 0 || slot < 0) { w.noop(st, "no document / no free slot"); return; }
    MVal *src = w.slots[s];
    if (!doc_ok_for_patch(src)) { w.noop(st, "document not suitable"); return; }
    { std::vector<MVal *> all; mv_collect(src, all); for (MVal *k : all) if (k->key.find('\0') != std::string::npos || k->str.find('\0') != std::string::npos) { w.noop(st, "text with a zero byte"); return; } }
    cJSON *c = construct(src);
    if (w.tolerate_failure(c == nullptr)) return;
    if (!c) { w.mismatch("create", "a constructor returned NULL while a document was rebuilt"); return; }
    MVal *m = mv_clone_value(src);
    m->keystate = K_NONE; m->key.clear(); m->constkey = false; m->keypool = -1;
    m->c = c;
    w.slots[slot] = m;
    w.touch(slot);
    w.stats.probes["document_rebuilt_through_constructors"]++;
    w.log.add("rebuild s" + I(s) + " -> s" + I(slot));
}

DEFOP(pop) {
    // a0 doc slot, a1 kind, a2 path selector, a3 from selector, a4 value seed, a5 tweak
    if (!w.pending_patch) {
        int s = w.live_slot(st.A(0));
        if (s < 0 || !w.movable_root(w.slots[s]) || !doc_ok_for_patch(w.slots[s], true)) { w.noop(st, "no patchable document"); return; }
        w.pending_slot = s;
        w.pending_patch = mv_new(T_ARRAY);
        w.pending_ref = mv_clone_value(w.slots[s]);
        w.pending_ref->keystate = K_NONE; w.pending_ref->key.clear();
    }
    if (w.pending_patch->kids.size() >= 10) { w.noop(st, "patch full"); return; }
    std::vector<std::pair<std::string, MVal *>> ptrs;
    ptr_enumerate(w.pending_ref, ptrs);
    int kind = (int)((uint64_t)st.A(1) % 6);  // add remove replace test copy move
    uint64_t tweak = (uint64_t)st.A(5);
    // a document that contains reference nodes is only read: a patch must not write into memory the document borrows
    if (w.pending_slot < 0 || !w.slots[w.pending_slot]) { w.drop_pending(); w.noop(st, "document gone"); return; }
    if (has_ref_nodes(w.slots[w.pending_slot])) { kind = 3; w.stats.probes["patch_on_document_with_references"]++; }
    Rng vr((uint64_t)st.A(4));
    GenOpts go = profile_opts(3); go.max_depth = 2;
    auto pick_existing = [&](int64_t sel, bool allow_root) -> std::string {
        size_t lo = allow_root ? 0 : 1;
        if (ptrs.size() <= lo) return allow_root ? "" : "/";
        if ((tweak % 6) == 1) {  // bias to first elements / first members (head of a sibling chain)
            std::vector<size_t> firsts;
            for (size_t i = lo; i < ptrs.size(); i++) { MVal *n = ptrs[i].second; if (n->parent && n->parent->kids.front() == n && n->parent->kids.size() >= 2) firsts.push_back(i); }
            if (!firsts.empty()) return ptrs[firsts[(uint64_t)sel % firsts.size()]].first;
        }
        return ptrs[lo + (uint64_t)sel % (ptrs.size() - lo)].first;
    };
    auto pick_addable_in = [&](const std::vector<std::pair<std::string, MVal *>> &ptrs, int64_t sel, const std::string &prefer) -> std::string {
        // a location "add" can target: existing member/element, new member of an object, index <= size or "-" of an array
        std::vector<std::string> c;
        for (auto &p : ptrs) {
            if (p.second->type == T_OBJECT) {
                static const char *nk[] = {"new", "a", "A", "/", "~", "a/b", "m~n", "", "0", "-", "1"};
                c.push_back(p.first + "/" + ptr_escape(nk[(tweak + c.size()) % 11]));
            } else if (p.second->type == T_ARRAY) {
                c.push_back(p.first + "/-");
                c.push_back(p.first + "/" + I((int64_t)((tweak + c.size()) % (p.second->kids.size() + 1))));
            }
        }
        for (auto &p : ptrs) c.push_back(p.first);
        if (!prefer.empty()) {  // bias: locations below the given container
            std::vector<std::string> c2;
            for (auto &x : c) if (x.size() > prefer.size() + 1 && x.compare(0, prefer.size(), prefer) == 0 && x[prefer.size()] == '/') c2.push_back(x);
            if (!c2.empty()) return c2[(uint64_t)sel % c2.size()];
        }
        return c[(uint64_t)sel % c.size()];
    };
    auto pick_addable = [&](int64_t sel) -> std::string { return pick_addable_in(ptrs, sel, ""); };
    MVal *op = mkobj();
    static const char *names[] = {"add", "remove", "replace", "test", "copy", "move"};
    put(op, "op", mv_str(names[kind]));
    bool deliberate_fail = (tweak % 11) == 0;
    std::string path;
    switch (kind) {
        case 0: path = pick_addable(st.A(2)); if (deliberate_fail) path += "/nope/deeper"; put(op, "path", mv_str(path)); put(op, "value", gen_value(vr, go)); break;
        case 1:
            path = pick_existing(st.A(2), false);
            if (w.cfg.shared_world && (tweak % 4) == 0) path = "";  // removal of the whole document: left open by C16, but its memory accesses count for C20
            else if (deliberate_fail) path += "/missing";
            put(op, "path", mv_str(path));
            break;
        case 2: path = pick_existing(st.A(2), (tweak % 5) == 0); if (deliberate_fail) path += "/missing"; put(op, "path", mv_str(path)); put(op, "value", gen_value(vr, go)); break;
        case 3: {
            path = pick_existing(st.A(2), true);
            if (has_ref_nodes(w.slots[w.pending_slot]) && (tweak % 3) != 2) {
                // two thirds of the tests on a document with references go to a reference node itself (or to one of its
                // ancestors): the comparison then walks memory the document only borrows. The widest referenced container first.
                std::vector<MVal *> all, refs; mv_collect(w.slots[w.pending_slot], all);
                for (MVal *x : all) if (x->refkind != R_NONE && x->target) refs.push_back(x);
                if (!refs.empty()) {
                    MVal *pickd = refs[(uint64_t)st.A(2) % refs.size()];
                    if ((tweak % 5) != 0) for (MVal *x : refs) if (x->target->kids.size() > pickd->target->kids.size()) pickd = x;
                    std::string rp; bool ok = true;
                    for (MVal *q = pickd; q->parent; q = q->parent) {
                        MVal *pa = q->parent;
                        if (pa->type == T_ARRAY) { size_t i = 0; while (i < pa->kids.size() && pa->kids[i] != q) i++; rp = "/" + I((int64_t)i) + rp; }
                        else if (q->keystate == K_KNOWN) rp = "/" + ptr_escape(q->key) + rp;
                        else { ok = false; break; }
                    }
                    if (ok && (tweak % 7) == 3 && !rp.empty()) rp = rp.substr(0, rp.rfind('/'));   // the parent of the reference node
                    if (ok && ptr_resolve(w.pending_ref, rp)) {
                        path = rp;
                        w.stats.probes["patch_test_aimed_at_a_reference_node"]++;
                        if (pickd->target->type == T_OBJECT && pickd->target->kids.size() > 32) w.stats.probes["patch_test_aimed_at_a_reference_to_a_wide_object"]++;
                    }
                }
            }
            put(op, "path", mv_str(path));
            MVal *t = ptr_resolve(w.pending_ref, path);
            if (t && !deliberate_fail && has_ref_nodes(w.slots[w.pending_slot])) {
                std::vector<MVal *> sub; mv_collect(t, sub);
                for (MVal *x : sub) if (x->kids.size() > 32) { w.stats.probes["patch_test_covers_a_wide_container_of_a_document_with_references"]++; break; }
            }
            MVal *v = (t && !deliberate_fail) ? mv_clone_value(t) : gen_value(vr, go);
            v->keystate = K_NONE;
            // permute object members of the expected value: equality is independent of member order
            if (v->type == T_OBJECT && v->kids.size() > 1 && (tweak & 1)) std::reverse(v->kids.begin(), v->kids.end());
            put(op, "value", v);
            break;
        }
        default: {
            std::string from = pick_existing(st.A(3), kind == 4 && (tweak % 7) == 0);
            path = pick_addable(st.A(2));
            if (kind == 5 && (tweak % 3) == 0 && !from.empty()) {
                // RFC 6902 evaluates a move's "path" in the document as it is AFTER "from" was removed: choose it there, so that
                // locations are reached that exist only once the removal has shifted the array elements (and, with the bias,
                // locations inside the container the value was taken from)
                MVal *tmp = mv_clone_value(w.pending_ref);
                tmp->keystate = K_NONE; tmp->key.clear();
                MVal *rm = mkobj(); put(rm, "op", mv_str("remove")); put(rm, "path", mv_str(from));
                std::string why2;
                if (rfc6902_apply_op(&tmp, rm, why2) && tmp) {
                    std::vector<std::pair<std::string, MVal *>> ptrs2;
                    ptr_enumerate(tmp, ptrs2);
                    size_t cut = from.rfind('/');
                    path = pick_addable_in(ptrs2, st.A(2), (tweak % 2) ? from.substr(0, cut) : std::string());
                    if (!ptr_resolve(w.pending_ref, path.substr(0, path.rfind('/') == std::string::npos ? 0 : path.rfind('/')))) w.stats.probes["patch_move_target_exists_only_after_removal"]++;
                    w.stats.probes["patch_move_target_chosen_after_removal"]++;
                }
                mv_free(rm);
                if (tmp) mv_free(tmp);
            }
            if ((tweak % 13) == 0 && kind == 5) path = from + "/child";  // move into own child
            if ((tweak % 19) == 0 && kind == 5) {                         // move of a location onto itself; sometimes a location that differs from a member only in letter case
                if ((tweak % 38) == 0) for (size_t ci = from.size(); ci-- > 0 && from[ci] != '/';) { if (from[ci] >= 'a' && from[ci] <= 'z') { from[ci] = (char)(from[ci] - 32); break; } if (from[ci] >= 'A' && from[ci] <= 'Z') { from[ci] = (char)(from[ci] + 32); break; } }
                path = from;
            }
            if (deliberate_fail) from += "/missing";
            put(op, "from", mv_str(from));
            put(op, "path", mv_str(path));
            break;
        }
    }
    if ((tweak % 29) == 0 && !path.empty()) {
        // an index far beyond any array: 2^32 + i, 2^64 + i (legal tokens, designate nothing)
        size_t slash = path.rfind('/');
        std::string last = path.substr(slash + 1);
        bool digits = !last.empty() && last.size() < 4;
        for (char c : last) if (c < '0' || c > '9') digits = false;
        if (digits) {
            static const char *base[] = {"429496729", "1844674407370955161", "214748364"};
            std::string huge = std::string(base[(tweak / 29) % 3]) + std::to_string(6 + atoi(last.c_str()) % 4);
            if ((tweak / 29) % 3 == 0) huge = std::to_string(4294967296ull + (unsigned long long)atoi(last.c_str()));
            if ((tweak / 29 / 3) % 3 == 0) {  // the exact ends of the unsigned and signed ranges an index could be decoded into
                static const char *edge[] = {"18446744073709551615", "18446744073709551614", "4294967295", "2147483647", "2147483648", "9223372036854775807", "9223372036854775808", "65535", "65536"};
                huge = edge[(tweak / 29 / 9) % 9];
            }
            path = path.substr(0, slash + 1) + huge;
            for (MVal *k : op->kids) if (k->key == "path") k->str = path;
            w.stats.probes["patch_huge_index"]++;
        }
    }
    if ((tweak % 23) == 0) {
        // a pointer text that is not a JSON pointer at all (no leading '/'): only the robustness clause applies to such a patch
        for (MVal *k : op->kids)
            if ((k->key == "path" || (k->key == "from" && (tweak & 1))) && k->type == T_STRING && !k->str.empty() && k->str[0] == '/') {
                k->str = ((tweak / 23) % 3 == 0 || k->str.size() < 2 || k->str[1] == '/') ? std::string("nopointer") : k->str.substr(1);   // never "" (the whole document) and never another valid pointer
                if (k->str.find('/') == std::string::npos) w.stats.probes["patch_pointer_without_any_slash"]++;
                w.pending_corrupt = true;
            }
    }
    if ((tweak % 31) == 0) {
        // a pointer text cut right after the '~' of an escape (a lone tilde ends the token): not a JSON pointer, robustness clause only
        for (MVal *k : op->kids)
            if ((k->key == "path" || k->key == "from") && k->type == T_STRING) {
                size_t t = k->str.rfind('~');
                if (t != std::string::npos && ((tweak / 31) & 1 || k->key == "from")) { k->str.erase(t + 1); w.pending_corrupt = true; w.stats.probes["patch_pointer_ends_in_a_lone_tilde"]++; }
            }
    }
    if ((tweak % 17) == 0) {  // missing member
        size_t victim = (size_t)(tweak / 17) % op->kids.size();
        MVal *v = op->kids[victim];
        mv_detach(v); mv_free(v);
    }
    // keep the reference state moving so that later selectors see the document as it will be
    if (!w.pending_ref_failed) {
        std::string why;
        if (path.empty() && kind == 1) { /* remove of the whole document is left open: never generated */ }
        if (!rfc6902_apply_op(&w.pending_ref, op, why)) w.pending_ref_failed = true;
    }
    mv_add_kid(w.pending_patch, op, w.pending_patch->kids.size());
    w.log.add("pop " + mv_dump(op, 160));
}
DEFOP(pcorrupt) {
    // patch_corrupt fault: a0 kind, a1 selector, a2 seed
    if (!w.pending_patch || w.pending_patch->kids.empty()) { w.noop(st, "no pending patch"); return; }
    int kind = (int)((uint64_t)st.A(0) % 10);
    MVal *op = w.pending_patch->kids[(uint64_t)st.A(1) % w.pending_patch->kids.size()];
    Rng r((uint64_t)st.A(2));
    auto member = [&](const char *n) -> MVal * { if (op->type != T_OBJECT) return nullptr; for (MVal *k : op->kids) if (k->key == n) return k; return nullptr; };
    auto retype = [&](MVal *m, int t) { for (MVal *k : m->kids) mv_free(k); m->kids.clear(); m->type = t; m->num = 42; m->str = "x"; };
    switch (kind) {
        case 0: { MVal *m = member("from"); if (!m) m = member("path"); if (m) retype(m, T_NUMBER); break; }   // number where a pointer string is expected
        case 1: { MVal *m = member("op"); if (m) { static const char *bad[] = {"ADD", "", "delete", "tes", "copy "}; m->str = bad[r.below(5)]; } break; }
        case 2: { MVal *m = member("op"); if (m) retype(m, r.chance(1, 2) ? T_NULL : T_ARRAY); break; }
        case 3: { MVal *m = member("path"); if (m && m->type == T_STRING) { static const char *odd[] = {"a", "/~", "/a~2b", "//", "/-/-", "/00", "/1e0", "/ 1", "/+1", "~", "/a/~"}; m->str = odd[r.below(11)]; } break; }
        case 4: retype(op, r.chance(1, 2) ? T_NUMBER : T_STRING); break;                                         // operation is not an object
        case 5: { retype(w.pending_patch, r.chance(1, 2) ? T_OBJECT : T_STRING); break; }                        // patch root is not an array
        case 6: { MVal *m = member("path"); if (m) retype(m, T_OBJECT); break; }
        case 7: { MVal *m = member("from"); if (m && m->type == T_STRING) m->str = r.chance(1, 2) ? "" : "/-"; break; }
        case 9: {  // any JSON value whatsoever as patch document
            GenOpts go = profile_opts(r.chance(1, 2) ? 3 : 5);
            MVal *v = gen_value(r, go);
            mv_free(w.pending_patch);
            w.pending_patch = v;
            break;
        }
        default: { if (op->type == T_OBJECT && !op->kids.empty()) { MVal *v = op->kids[r.below(op->kids.size())]; mv_detach(v); mv_free(v); } break; }
    }
    w.pending_corrupt = true;
    w.stats.fault_counts["patch_corrupt"]++;
    w.log.add("pcorrupt kind " + I(kind));
}
static cJSON *build_from_model(const MVal *m) {
    // stage-setting: materialise a model value as a library tree through the parser
    Rng r(1);
    SpellOpts so; so.ws = 0; so.escapes = false; so.numspell = false;
    std::string t = serialize_value(m, r, so);
    return cJSON_Parse(t.c_str());
}
// The patch assembled through the constructors, the way a program builds one: member names as constant keys and op / pointer
// texts as string references, all of it lent read-only (borrowed::). nullptr when the patch is not an array of objects or a
// text cannot be lent; the caller then falls back to the parsed form.
static cJSON *build_patch_via_api(const MVal *pm, uint64_t sel) {
    if (pm->type != T_ARRAY) return nullptr;
    for (const MVal *op : pm->kids) {
        if (op->type != T_OBJECT) return nullptr;
        for (const MVal *k : op->kids) if (k->key.find('\0') != std::string::npos || (k->type == T_STRING && k->str.find('\0') != std::string::npos)) return nullptr;
    }
    struct Lent { const char *key; const char *text; };
    std::vector<std::vector<Lent>> lent(pm->kids.size());
    bool full = false;
    borrowed::open();   // phase 1: lend every text; no library call (hence no task switch) until the region is sealed again
    for (size_t i = 0; i < pm->kids.size(); i++)
        for (const MVal *k : pm->kids[i]->kids) {
            Lent l{borrowed::put(k->key), k->type == T_STRING ? borrowed::put(k->str) : nullptr};
            if (!l.key || (k->type == T_STRING && !l.text)) full = true;
            lent[i].push_back(l);
        }
    borrowed::seal();
    if (full) return nullptr;
    cJSON *arr = cJSON_CreateArray();
    if (!arr) return nullptr;
    for (size_t i = 0; i < pm->kids.size(); i++) {
        cJSON *o = cJSON_CreateObject();
        if (!o || !cJSON_AddItemToArray(arr, o)) { cJSON_Delete(o); cJSON_Delete(arr); return nullptr; }
        size_t j = 0;
        for (const MVal *k : pm->kids[i]->kids) {
            uint64_t bits = mix64(sel, i * 16 + j);
            cJSON *item = (k->type == T_STRING && (bits & 3) != 0) ? cJSON_CreateStringReference(lent[i][j].text) : build_from_model(k);
            if (!item) { cJSON_Delete(arr); return nullptr; }
            cJSON_bool ok = ((bits >> 2) & 3) != 0 ? cJSON_AddItemToObjectCS(o, lent[i][j].key, item) : cJSON_AddItemToObject(o, k->key.c_str(), item);
            if (!ok) { cJSON_Delete(item); cJSON_Delete(arr); return nullptr; }
            j++;
        }
    }
    return arr;
}
DEFOP(patch_apply) {
    if (!w.pending_patch) { w.noop(st, "no pending patch"); return; }
    int s = w.pending_slot;
    MVal *doc = (s >= 0) ? w.slots[s] : nullptr;
    if (!doc || !w.movable_root(doc) || !doc_ok_for_patch(doc, true)) { w.drop_pending(); w.noop(st, "document gone"); return; }
    bool doc_has_refs = has_ref_nodes(doc);
    if (doc_has_refs) for (MVal *op : w.pending_patch->kids) { bool test_only = false; if (op->type == T_OBJECT) for (MVal *k : op->kids) if (k->key == "op" && k->type == T_STRING && k->str == "test") test_only = true; if (!test_only || w.pending_corrupt) { w.drop_pending(); w.noop(st, "only test patches on documents with references"); return; } }
    struct Drop { World &w; ~Drop() { w.drop_pending(); } } dp{w};
    w.touch(s);
    w.mark_utils(s);
    if (doc_has_refs) {
        // the trees this document refers to take part in the call: what the call does to them is judged with it
        std::vector<MVal *> all; mv_collect(doc, all);
        for (MVal *x : all)
            if (x->refkind != R_NONE && x->target)
            {
                for (int i = 0; i < NSLOTS; i++) if (w.slots[i] && w.slots[i] == mv_root(x->target)) { w.touch(i); w.mark_utils(i); }
                if (x->target->kids.size() > 32) w.stats.probes["patched_document_refers_to_a_wide_container"]++;
            }
    }
    cJSON *patch = nullptr;
    if (((uint64_t)st.A(0) / 13) % 3 == 0) {
        patch = build_patch_via_api(w.pending_patch, (uint64_t)st.A(0));
        if (patch) w.stats.probes["patch_built_through_constructors_with_lent_texts"]++;
    }
    if (!patch) patch = build_from_model(w.pending_patch);
    if (!patch) { w.noop(st, "patch document could not be materialised"); return; }
    struct Del { cJSON *c; ~Del() { cJSON_Delete(c); } } dl{patch};
    // reference evaluation on a copy of the model: once with exact number equality in 'test', once with the library's
    // tolerant notion (they differ only for numbers within one part in 2^52)
    MVal *ref = mv_clone_value(doc);
    ref->keystate = K_NONE; ref->key.clear();
    std::string rwhy;
    rfc_number_tolerant = false;
    bool ref_ok = rfc6902_apply(&ref, w.pending_patch, rwhy);
    struct FreeRef { MVal *&m; ~FreeRef() { mv_free(m); } } fr{ref};
    MVal *ref2 = mv_clone_value(doc);
    ref2->keystate = K_NONE; ref2->key.clear();
    std::string rwhy2;
    rfc_number_tolerant = true;
    bool ref2_ok = rfc6902_apply(&ref2, w.pending_patch, rwhy2);
    rfc_number_tolerant = false;
    struct FreeRef2 { MVal *&m; ~FreeRef2() { mv_free(m); } } fr2{ref2};
    bool corrupt = w.pending_corrupt;
    std::string ptxt = mv_dump(w.pending_patch, 700), dtxt = mv_dump(doc, 300);
    long live0 = (long)asim::live_blocks(), owned0 = owned_block_count(doc->c) + owned_block_count(patch);
    int status = cJSONUtils_ApplyPatchesCaseSensitive(doc->c, patch);
    // the document must remain a well-formed tree whatever happened
    size_t budget = 4000000;
    std::string ww;
    if ((doc->c->type & 0xFF) == cJSON_Invalid) {
        // remove of the whole document (left open by the statement) is never generated; an invalid root otherwise is a malformed document
        w.mismatch("patch-wellformed", "document root became an invalid item after patch " + ptxt);
        return;
    }
    if (!struct_wellformed(doc->c, true, budget, 0, ww)) { w.mismatch("patch-wellformed", "document is not a well-formed tree after the patch: " + ww + " [doc " + dtxt + " patch " + ptxt + " status " + I(status) + "]"); return; }
    {
        // neither crashes nor leaks: every block allocated during the call is now part of the document (or the patch), and
        // every block that left them was released
        long live1 = (long)asim::live_blocks(), owned1 = owned_block_count(doc->c) + owned_block_count(patch);
        // (the ledger is shared by all tasks in the sched engine: no per-call accounting there)
        if (!w.cfg.shared_world && live1 - live0 != owned1 - owned0) {
            w.mismatch("patch-leak", "applying the patch changed the number of allocated blocks by " + I(live1 - live0) + " but the document and the patch together changed by " + I(owned1 - owned0) + " blocks (" + (live1 - live0 > owned1 - owned0 ? "blocks leaked" : "blocks released that are still referenced") + ") [doc " + dtxt + " patch " + ptxt + " status " + I(status) + "]");
            return;
        }
    }
    if (!corrupt) {
        if ((status == 0) != ref_ok && (status == 0) == ref2_ok) { ref_ok = ref2_ok; std::swap(ref, ref2); w.stats.probes["patch_number_tolerance_decided"]++; }
        if ((status == 0) != ref_ok) {
            w.mismatch("patch-status", "ApplyPatchesCaseSensitive returned " + I(status) + " but RFC 6902 evaluation " + (ref_ok ? "succeeds" : "fails (" + rwhy + ")") + " [doc " + dtxt + " patch " + ptxt + "]");
            return;
        }
        if (ref_ok) {
            budget = 4000000;
            MVal *got = read_struct(doc->c, budget, 0, ww);
            if (!got) { w.mismatch("patch-wellformed", "patched document unreadable: " + ww); return; }
            struct FreeG { MVal *m; ~FreeG() { mv_free(m); } } fg{got};
            EqOpts eo; eo.obj_as_set = true;
            std::string ew;
            got->keystate = K_NONE; got->key.clear();
            if (!mv_equal(ref, got, eo, &ew) && !(ref2_ok && mv_equal(ref2, got, eo, nullptr))) { w.mismatch("patch-result", "patched document differs from the RFC 6902 result: " + ew + " [doc " + dtxt + " patch " + ptxt + " expected " + mv_dump(ref, 200) + " got " + mv_dump(got, 200) + "]"); return; }
            w.mark_nontrivial();
            w.stats.state_hashes.push_back(mix64(hash_str(ptxt), hash_str(dtxt)));
            w.stats.probes["patch_succeeded"]++;
        } else w.stats.probes["patch_failed_as_predicted"]++;
    } else w.stats.probes["patch_corrupt_survived"]++;
    // values adopted from here on (the library is documented non-atomic on failure; member order is free)
    if (doc_has_refs) {  // read-only patch: the model (with its references) stays; only member order may have changed
        std::string pw;
        if (!adopt_permutation(doc, pw)) { w.mismatch("patch-wellformed", "document after a test-only patch: " + pw); return; }
        w.log.add("patch_apply (document with references) status " + I(status) + " ref " + B(ref_ok));
        return;
    }
    if (!readopt_slot(w, s, doc->c, ww)) { w.mismatch("patch-wellformed", "patched document unreadable: " + ww); return; }
    w.log.add("patch_apply status " + I(status) + " ref " + B(ref_ok) + (corrupt ? " (corrupt patch)" : "") + " -> " + mv_dump(w.slots[s], 120));
}

// ------------------------------------------------------------------ C17 patch generation
static bool valid_patch_shape(const MVal *p, std::string &why) {
    if (p->type != T_ARRAY) { why = "generated patch is not an array"; return false; }
    for (const MVal *op : p->kids) {
        if (op->type != T_OBJECT) { why = "patch element is not an object"; return false; }
        const MVal *o = nullptr, *path = nullptr;
        for (const MVal *k : op->kids) { if (k->key == "op") o = k; if (k->key == "path") path = k; }
        if (!o || o->type != T_STRING || !path || path->type != T_STRING) { why = "patch element lacks op/path strings: " + mv_dump(op, 100); return false; }
        std::vector<std::string> toks;
        if (!ptr_split(path->str, toks)) { why = "patch element has an invalid pointer: " + mv_dump(op, 100); return false; }
    }
    return true;
}
DEFOP(patch_gen) {
    int fs = w.live_slot(st.A(0)), ts = w.live_slot(st.A(1));
    if (fs < 0 || ts < 0 || fs == ts) { w.noop(st, "need two documents"); return; }
    MVal *from = w.slots[fs], *to = w.slots[ts];
    if (!w.movable_root(from) || !w.movable_root(to) || !doc_ok_for_patch(from) || !doc_ok_for_patch(to)) { w.noop(st, "documents not suitable"); return; }
    std::string ftxt = mv_dump(from, 200), ttxt = mv_dump(to, 200);
    w.mark_utils(fs); w.mark_utils(ts);
    MVal *from_before = mv_clone_value(from), *to_before = mv_clone_value(to);
    struct F2 { MVal *a, *b; ~F2() { mv_free(a); mv_free(b); } } f2{from_before, to_before};
    cJSON *patches = cJSONUtils_GeneratePatchesCaseSensitive(from->c, to->c);
    if (!patches) { w.mismatch("gen-result", "GeneratePatchesCaseSensitive returned NULL"); return; }
    struct Del { cJSON *c; ~Del() { cJSON_Delete(c); } } dl{patches};
    std::string why;
    // inputs: same nodes, possibly reordered; values unchanged (checked by the structural walk after the step)
    if (!adopt_permutation(from, why)) { w.mismatch("gen-inputs", "'from' document after generation: " + why + " [from " + ftxt + " to " + ttxt + "]"); return; }
    if (!adopt_permutation(to, why)) { w.mismatch("gen-inputs", "'to' document after generation: " + why + " [from " + ftxt + " to " + ttxt + "]"); return; }
    size_t budget = 4000000;
    MVal *pm = read_struct(patches, budget, 0, why);
    if (!pm) { w.mismatch("gen-result", "generated patch unreadable: " + why); return; }
    struct FP { MVal *m; ~FP() { mv_free(m); } } fp{pm};
    if (!valid_patch_shape(pm, why)) { w.mismatch("gen-result", why + " [from " + ftxt + " to " + ttxt + "]"); return; }
    std::string ptxt = mv_dump(pm, 300);
    // "equal" is the library's semantic equality of values (numbers within relative DBL_EPSILON): exactly equal documents
    // must give an empty patch, an empty patch is only allowed for documents equal in that sense; in between either is fine
    EqOpts eo; eo.obj_as_set = true; eo.rel_tol = 2.220446049250313e-16; eo.exact_int_below_1e15 = false;
    rfc_number_tolerant = false;
    bool equal_exact = rfc_equal(from_before, to_before);
    rfc_number_tolerant = true;
    bool equal_tolerant = rfc_equal(from_before, to_before);
    rfc_number_tolerant = false;
    if (equal_exact && !pm->kids.empty()) { w.mismatch("gen-empty", "documents are equal but the generated patch is not empty: " + ptxt + " [from " + ftxt + " to " + ttxt + "]"); return; }
    if (!equal_tolerant && pm->kids.empty()) { w.mismatch("gen-empty", "documents are different but the generated patch is empty [from " + ftxt + " to " + ttxt + "]"); return; }
    // independent evaluator
    {
        MVal *ref = mv_clone_value(from_before);
        ref->keystate = K_NONE; ref->key.clear();
        std::string rw, ew;
        bool ok = rfc6902_apply(&ref, pm, rw);
        struct FR { MVal *&m; ~FR() { mv_free(m); } } fr{ref};
        if (!ok) { w.mismatch("gen-apply-ref", "generated patch fails under RFC 6902 evaluation (" + rw + "): " + ptxt + " [from " + ftxt + " to " + ttxt + "]"); return; }
        MVal *tcopy = to_before;
        int ks = tcopy->keystate; std::string kk = tcopy->key; tcopy->keystate = K_NONE; tcopy->key.clear();
        bool eq = mv_equal(tcopy, ref, eo, &ew);
        tcopy->keystate = ks; tcopy->key = kk;
        if (!eq) { w.mismatch("gen-apply-ref", "generated patch applied by the reference evaluator does not yield 'to': " + ew + " [patch " + ptxt + " from " + ftxt + " to " + ttxt + " got " + mv_dump(ref, 200) + "]"); return; }
    }
    // the library applying its own patch to a copy of 'from'
    {
        cJSON *copy = build_from_model(from_before);
        if (!copy) { w.noop(st, "copy of from could not be built"); return; }
        struct D2 { cJSON *c; ~D2() { cJSON_Delete(c); } } d2{copy};
        int status = cJSONUtils_ApplyPatchesCaseSensitive(copy, patches);
        if (status != 0) { w.mismatch("gen-apply-lib", "the library fails to apply its own generated patch (status " + I(status) + "): " + ptxt + " [from " + ftxt + " to " + ttxt + "]"); return; }
        budget = 4000000;
        MVal *got = read_struct(copy, budget, 0, why);
        if (!got) { w.mismatch("gen-apply-lib", "patched copy unreadable: " + why); return; }
        struct FG { MVal *m; ~FG() { mv_free(m); } } fg{got};
        std::string ew;
        got->keystate = K_NONE; got->key.clear();
        MVal *tcopy = mv_clone_value(to_before); tcopy->keystate = K_NONE; tcopy->key.clear();
        struct FT { MVal *m; ~FT() { mv_free(m); } } ft{tcopy};
        if (!mv_equal(tcopy, got, eo, &ew)) { w.mismatch("gen-apply-lib", "generated patch applied by the library does not yield 'to': " + ew + " [patch " + ptxt + " from " + ftxt + " to " + ttxt + "]"); return; }
    }
    // the patch applied to 'from' ITSELF and then once more to a fresh copy: the generated patch is a document of its own,
    // what the first application releases or rewrites inside 'from' must not matter to it
    if (!pm->kids.empty() && ((uint64_t)st.A(0) / 1009) % 3 == 0) {
        cJSON *copy2 = build_from_model(from_before);
        if (!copy2) { w.noop(st, "copy of from could not be built"); return; }
        struct D3 { cJSON *c; ~D3() { cJSON_Delete(c); } } d3{copy2};
        MVal *tcopy = mv_clone_value(to_before); tcopy->keystate = K_NONE; tcopy->key.clear();
        struct FT { MVal *m; ~FT() { mv_free(m); } } ft{tcopy};
        cJSON *fc = from->c;
        w.touch(fs);
        w.model_delete(from);
        w.slots[fs] = nullptr;
        int status = cJSONUtils_ApplyPatchesCaseSensitive(fc, patches);
        if (status != 0) { w.mismatch("gen-apply-lib", "the library fails to apply its own generated patch to 'from' itself (status " + I(status) + "): " + ptxt + " [from " + ftxt + " to " + ttxt + "]"); return; }
        budget = 4000000;
        if (!struct_wellformed(fc, true, budget, 0, why)) { w.mismatch("gen-apply-lib", "'from' patched in place is not a well-formed tree: " + why + " [patch " + ptxt + " from " + ftxt + "]"); return; }
        budget = 4000000;
        MVal *got = read_struct(fc, budget, 0, why, true);
        if (!got) { w.mismatch("gen-apply-lib", "'from' patched in place is unreadable: " + why); return; }
        w.slots[fs] = got;
        std::string ew;
        int ks = got->keystate; std::string kk = got->key; got->keystate = K_NONE; got->key.clear();
        bool eq = mv_equal(tcopy, got, eo, &ew);
        got->keystate = ks; got->key = kk;
        if (!eq) { w.mismatch("gen-apply-lib", "generated patch applied to 'from' itself does not yield 'to': " + ew + " [patch " + ptxt + " from " + ftxt + " to " + ttxt + "]"); return; }
        status = cJSONUtils_ApplyPatchesCaseSensitive(copy2, patches);
        if (status != 0) { w.mismatch("gen-apply-lib", "second application of the generated patch (to a fresh copy of 'from', after 'from' itself was patched) fails with status " + I(status) + ": " + ptxt + " [from " + ftxt + " to " + ttxt + "]"); return; }
        budget = 4000000;
        MVal *got2 = read_struct(copy2, budget, 0, why);
        if (!got2) { w.mismatch("gen-apply-lib", "patched second copy unreadable: " + why); return; }
        struct FG2 { MVal *m; ~FG2() { mv_free(m); } } fg2{got2};
        got2->keystate = K_NONE; got2->key.clear();
        if (!mv_equal(tcopy, got2, eo, &ew)) { w.mismatch("gen-apply-lib", "second application of the generated patch does not yield 'to': " + ew + " [patch " + ptxt + " from " + ftxt + " to " + ttxt + "]"); return; }
        budget = 4000000;
        MVal *pm2 = read_struct(patches, budget, 0, why);
        if (!pm2) { w.mismatch("gen-result", "generated patch unreadable after it was applied: " + why); return; }
        struct FP2 { MVal *m; ~FP2() { mv_free(m); } } fp2{pm2};
        EqOpts ex;
        if (!mv_equal(pm, pm2, ex, &ew)) { w.mismatch("gen-result", "the generated patch changed while it was applied: " + ew + " [patch " + ptxt + "]"); return; }
        w.stats.probes["generated_patch_applied_to_from_itself_then_again"]++;
    }
    if (!pm->kids.empty()) { w.mark_nontrivial(); w.stats.state_hashes.push_back(mix64(hash_str(ptxt), hash_str(ftxt))); }
    w.log.add("patch_gen s" + I(fs) + " -> s" + I(ts) + " ops " + I((int64_t)pm->kids.size()));
}

// ------------------------------------------------------------------ C18 merge patch
static bool has_null_member(const MVal *m) {
    if (m->type == T_OBJECT) for (const MVal *k : m->kids) if (k->type == T_NULL) return true;
    for (const MVal *k : m->kids) if (has_null_member(k)) return true;
    return false;
}
DEFOP(merge_apply) {
    int ts = w.live_slot(st.A(0)), ps = w.live_slot(st.A(1));
    if (ts < 0 || ps < 0 || ts == ps) { w.noop(st, "need target and patch"); return; }
    MVal *target = w.slots[ts], *patch = w.slots[ps];
    if (!w.movable_root(target) || !doc_ok_for_patch(target) || !doc_ok_for_patch(patch)) { w.noop(st, "documents not suitable"); return; }
    std::string ttxt = mv_dump(target, 200), ptxt = mv_dump(patch, 200);
    w.mark_utils(ts);
    MVal *tv = mv_clone_value(target); tv->keystate = K_NONE; tv->key.clear();
    MVal *pv = mv_clone_value(patch);
    struct FP { MVal *m; ~FP() { mv_free(m); } } fpv{pv};
    MVal *ref = rfc7396_merge(tv, pv);
    struct FR { MVal *m; ~FR() { mv_free(m); } } fr{ref};
    cJSON *tc = target->c;
    // the target is consumed: the model follows the returned pointer
    w.model_delete(target);
    w.slots[ts] = nullptr;
    cJSON *res = cJSONUtils_MergePatchCaseSensitive(tc, patch->c);
    if (!res) { w.mismatch("merge-result", "MergePatchCaseSensitive returned NULL [target " + ttxt + " patch " + ptxt + "]"); return; }
    std::string why;
    size_t budget = 4000000;
    if (!struct_wellformed(res, true, budget, 0, why)) {
        // keep the pointer reachable for nobody: the tree is malformed, do not delete it
        w.mismatch("merge-wellformed", "merge result is not a well-formed tree: " + why + " [target " + ttxt + " patch " + ptxt + "]");
        return;
    }
    budget = 4000000;
    MVal *got = read_struct(res, budget, 0, why, true);
    if (!got) { w.mismatch("merge-wellformed", "merge result unreadable: " + why); return; }
    w.slots[ts] = got;
    EqOpts eo; eo.obj_as_set = true;
    std::string ew;
    int ks = got->keystate; std::string kk = got->key; got->keystate = K_NONE; got->key.clear();
    bool eq = mv_equal(ref, got, eo, &ew);
    got->keystate = ks; got->key = kk;
    if (!eq) { w.mismatch("merge-result", "merge result differs from RFC 7396: " + ew + " [target " + ttxt + " patch " + ptxt + " expected " + mv_dump(ref, 200) + " got " + mv_dump(got, 200) + "]"); return; }
    if (patch->type == T_OBJECT && !patch->kids.empty()) { w.mark_nontrivial(); w.stats.state_hashes.push_back(mix64(hash_str(ttxt), hash_str(ptxt))); }
    if (has_null_member(patch)) w.stats.probes["merge_null_member"]++;
    w.log.add("merge_apply -> " + mv_dump(got, 120));
}
DEFOP(merge_gen) {
    int fs = w.live_slot(st.A(0)), ts = w.live_slot(st.A(1));
    if (fs < 0 || ts < 0 || fs == ts) { w.noop(st, "need two documents"); return; }
    MVal *from = w.slots[fs], *to = w.slots[ts];
    if (!w.movable_root(from) || !w.movable_root(to) || !doc_ok_for_patch(from) || !doc_ok_for_patch(to) || has_null_member(to)) { w.noop(st, "documents not suitable"); return; }
    std::string ftxt = mv_dump(from, 200), ttxt = mv_dump(to, 200);
    w.mark_utils(fs); w.mark_utils(ts);
    MVal *from_before = mv_clone_value(from), *to_before = mv_clone_value(to);
    from_before->keystate = K_NONE; from_before->key.clear(); to_before->keystate = K_NONE; to_before->key.clear();
    struct F2 { MVal *a, *b; ~F2() { mv_free(a); mv_free(b); } } f2{from_before, to_before};
    cJSON *patch = cJSONUtils_GenerateMergePatchCaseSensitive(from->c, to->c);
    struct Del { cJSON *c; ~Del() { if (c) cJSON_Delete(c); } } dl{patch};
    std::string why;
    if (!adopt_permutation(from, why)) { w.mismatch("mgen-inputs", "'from' document after generation: " + why + " [from " + ftxt + " to " + ttxt + "]"); return; }
    if (!adopt_permutation(to, why)) { w.mismatch("mgen-inputs", "'to' document after generation: " + why + " [from " + ftxt + " to " + ttxt + "]"); return; }
    EqOpts eo; eo.obj_as_set = true; eo.rel_tol = 2.220446049250313e-16; eo.exact_int_below_1e15 = false;  // equality of values as the library defines it
    std::string ew, ptxt = "NULL";
    MVal *pm = nullptr;
    if (patch) {
        size_t budget = 4000000;
        pm = read_struct(patch, budget, 0, why);
        if (!pm) { w.mismatch("mgen-result", "generated merge patch unreadable: " + why); return; }
        ptxt = mv_dump(pm, 300);
    }
    struct FP { MVal *m; ~FP() { mv_free(m); } } fp{pm};
    // reference application
    {
        MVal *ref = mv_clone_value(from_before);
        if (pm) ref = rfc7396_merge(ref, pm);
        struct FR { MVal *m; ~FR() { mv_free(m); } } fr{ref};
        ref->keystate = K_NONE; ref->key.clear();
        if (!mv_equal(to_before, ref, eo, &ew)) { w.mismatch("mgen-apply-ref", "generated merge patch applied per RFC 7396 does not yield 'to': " + ew + " [patch " + ptxt + " from " + ftxt + " to " + ttxt + "]"); return; }
    }
    // library application on a copy of from
    if (patch) {
        cJSON *copy = build_from_model(from_before);
        if (!copy) { w.noop(st, "copy of from could not be built"); return; }
        cJSON *res = cJSONUtils_MergePatchCaseSensitive(copy, patch);
        if (!res) { w.mismatch("mgen-apply-lib", "the library fails to apply its own merge patch " + ptxt); return; }
        struct D2 { cJSON *c; ~D2() { cJSON_Delete(c); } } d2{res};
        size_t budget = 4000000;
        MVal *got = read_struct(res, budget, 0, why);
        if (!got) { w.mismatch("mgen-apply-lib", "merged copy unreadable: " + why); return; }
        struct FG { MVal *m; ~FG() { mv_free(m); } } fg{got};
        got->keystate = K_NONE; got->key.clear();
        if (!mv_equal(to_before, got, eo, &ew)) { w.mismatch("mgen-apply-lib", "generated merge patch applied by the library does not yield 'to': " + ew + " [patch " + ptxt + " from " + ftxt + " to " + ttxt + "]"); return; }
    }
    // the patch applied to 'from' ITSELF (which is consumed) and then once more to a fresh copy: the generated patch is a
    // document of its own, what the first application releases inside 'from' must not matter to it
    if (patch && ((uint64_t)st.A(0) / 1009) % 3 == 0) {
        cJSON *copy2 = build_from_model(from_before);
        if (!copy2) { w.noop(st, "copy of from could not be built"); return; }
        cJSON *fc = from->c;
        w.touch(fs);
        w.model_delete(from);
        w.slots[fs] = nullptr;
        cJSON *res = cJSONUtils_MergePatchCaseSensitive(fc, patch);
        if (!res) { cJSON_Delete(copy2); w.mismatch("mgen-apply-lib", "the library fails to apply its own merge patch to 'from' itself " + ptxt); return; }
        size_t budget = 4000000;
        if (!struct_wellformed(res, true, budget, 0, why)) { cJSON_Delete(copy2); w.mismatch("mgen-apply-lib", "'from' merged in place is not a well-formed tree: " + why + " [patch " + ptxt + " from " + ftxt + "]"); return; }
        budget = 4000000;
        MVal *got = read_struct(res, budget, 0, why, true);
        if (!got) { cJSON_Delete(copy2); w.mismatch("mgen-apply-lib", "'from' merged in place is unreadable: " + why); return; }
        w.slots[fs] = got;
        int ks = got->keystate; std::string kk = got->key; got->keystate = K_NONE; got->key.clear();
        bool eq = mv_equal(to_before, got, eo, &ew);
        got->keystate = ks; got->key = kk;
        if (!eq) { cJSON_Delete(copy2); w.mismatch("mgen-apply-lib", "generated merge patch applied to 'from' itself does not yield 'to': " + ew + " [patch " + ptxt + " from " + ftxt + " to " + ttxt + "]"); return; }
        cJSON *res2 = cJSONUtils_MergePatchCaseSensitive(copy2, patch);
        if (!res2) { w.mismatch("mgen-apply-lib", "second application of the generated merge patch returned NULL " + ptxt); return; }
        struct D3 { cJSON *c; ~D3() { cJSON_Delete(c); } } d3{res2};
        budget = 4000000;
        MVal *got2 = read_struct(res2, budget, 0, why);
        if (!got2) { w.mismatch("mgen-apply-lib", "second merged copy unreadable: " + why); return; }
        struct FG2 { MVal *m; ~FG2() { mv_free(m); } } fg2{got2};
        got2->keystate = K_NONE; got2->key.clear();
        if (!mv_equal(to_before, got2, eo, &ew)) { w.mismatch("mgen-apply-lib", "second application of the generated merge patch (to a fresh copy of 'from', after 'from' itself was merged) does not yield 'to': " + ew + " [patch " + ptxt + " from " + ftxt + " to " + ttxt + "]"); return; }
        budget = 4000000;
        MVal *pm2 = read_struct(patch, budget, 0, why);
        if (!pm2) { w.mismatch("mgen-result", "generated merge patch unreadable after it was applied: " + why); return; }
        struct FP2 { MVal *m; ~FP2() { mv_free(m); } } fp2{pm2};
        EqOpts ex;
        if (!mv_equal(pm, pm2, ex, &ew)) { w.mismatch("mgen-result", "the generated merge patch changed while it was applied: " + ew + " [patch " + ptxt + "]"); return; }
        w.stats.probes["generated_merge_patch_applied_to_from_itself_then_again"]++;
    }
    if (patch) { w.mark_nontrivial(); w.stats.state_hashes.push_back(mix64(hash_str(ftxt), hash_str(ttxt))); }
    w.log.add("merge_gen -> " + ptxt);
}

// ------------------------------------------------------------------ pointer helpers, compare, minify (traces / allocator routing only)
DEFOP(ptr_find) {
    int s = w.live_slot(st.A(0));
    if (s < 0) { w.noop(st, "no root"); return; }
    MVal *root = w.slots[s];
    MVal *t = w.pick(st.A(0), st.A(1), [&](MVal *m) { return mv_root(m) == root; });
    if (!t) t = root;
    for (MVal *p = t; p; p = p->parent) if (p->type == T_OBJECT && !all_keys_known(p)) { w.noop(st, "keyless member on the path"); return; }
    char *p = cJSONUtils_FindPointerFromObjectTo(root->c, t->c);
    TextGuard g(p);
    std::string ps = p ? p : "<NULL>";
    if (p) {
        cJSON *r = cJSONUtils_GetPointerCaseSensitive(root->c, p);
        cJSON *r2 = cJSONUtils_GetPointer(root->c, p);
        w.log.add("ptr_find -> " + show_bytes(ps, 80) + " resolves " + B(r == t->c) + B(r2 != nullptr));
    } else w.log.add("ptr_find -> NULL");
}
DEFOP(compare) {
    MVal *a = w.pick(st.A(0), st.A(1), [&](MVal *) { return true; });
    MVal *b = w.pick(st.A(2), st.A(3), [&](MVal *) { return true; });
    if (!a || !b) { w.noop(st, "no nodes"); return; }
    cJSON_bool r = cJSON_Compare(a->c, b->c, st.A(4) & 1);
    w.log.add("compare -> " + B(r));
}
DEFOP(minify) {
    Rng vr((uint64_t)st.A(0)), sr((uint64_t)st.A(1));
    GenOpts go = profile_opts(5);
    MVal *v = gen_value(vr, go);
    SpellOpts so; so.ws = 2;
    std::string text = serialize_value(v, sr, so);
    mv_free(v);
    {   // comments between tokens (cJSON_Minify strips // and /* */ comments): inserted at whitespace outside strings
        std::string t2; bool in_str = false;
        for (size_t i = 0; i < text.size(); i++) {
            char ch = text[i];
            if (in_str) { if (ch == '\\' && i + 1 < text.size()) { t2 += ch; t2 += text[++i]; continue; } if (ch == '"') in_str = false; }
            else if (ch == '"') in_str = true;
            else if ((ch == ' ' || ch == '\n' || ch == '\t') && sr.chance(1, 6)) {
                if (sr.chance(1, 2)) t2 += "// c \" [1, /* x\n"; else t2 += "/* m \" * / // */";
                w.stats.probes["minify_comment_inserted"]++;
            }
            t2 += ch;
        }
        text.swap(t2);
    }
    std::vector<char> buf(text.begin(), text.end());
    buf.push_back('\0');
    cJSON_Minify(buf.data());
    w.log.add("minify -> h" + std::to_string(hash_str(std::string(buf.data()))));
}

// The case-insensitive Utils variants and cJSONUtils_AddPatchToArray: no listed property states their values, but their
// memory, allocator routing and thread behaviour are in scope (C14, C20). Everything runs on private copies.
DEFOP(utils_ci) {
    int as = w.live_slot(st.A(0)), bs = w.live_slot(st.A(1));
    if (as < 0 || bs < 0) { w.noop(st, "need documents"); return; }
    MVal *a = w.slots[as], *b = w.slots[bs];
    if (!doc_ok_for_patch(a) || !doc_ok_for_patch(b)) { w.noop(st, "documents not suitable"); return; }
    cJSON *da = cJSON_Duplicate(a->c, 1), *db = cJSON_Duplicate(b->c, 1);
    if (!da || !db) { cJSON_Delete(da); cJSON_Delete(db); w.noop(st, "alloc"); return; }
    std::string trace;
    switch ((uint64_t)st.A(2) % 5) {
        case 0: {
            cJSON *p = cJSONUtils_GeneratePatches(da, db);
            int status = p ? cJSONUtils_ApplyPatches(da, p) : -1;
            trace = "generate+apply status " + I(status) + " ops " + I(p ? cJSON_GetArraySize(p) : -1);
            cJSON_Delete(p);
            break;
        }
        case 1: {
            cJSON *p = cJSONUtils_GenerateMergePatch(da, db);
            trace = std::string("merge patch ") + (p ? "object" : "NULL");
            if (p) { da = cJSONUtils_MergePatch(da, p); cJSON_Delete(p); }
            break;
        }
        case 2: {
            cJSONUtils_SortObject(da);
            cJSON *patches = cJSON_CreateArray();
            if (patches) {
                cJSONUtils_AddPatchToArray(patches, "add", "/new", db);
                cJSONUtils_AddPatchToArray(patches, "remove", "/new", nullptr);
                cJSONUtils_AddPatchToArray(patches, "test", "", da);
                int status = cJSONUtils_ApplyPatches(da, patches);
                trace = "AddPatchToArray x3, apply status " + I(status);
                cJSON_Delete(patches);
            }
            break;
        }
        case 3: {
            da = cJSONUtils_MergePatch(da, db);
            trace = std::string("MergePatch -> ") + (da ? "tree" : "NULL");
            break;
        }
        default: {
            char *p = cJSONUtils_FindPointerFromObjectTo(da, da->child ? da->child : da);
            cJSON *hit = p ? cJSONUtils_GetPointer(da, p) : nullptr;
            trace = std::string("pointer ") + (p ? show_bytes(p, 40) : std::string("NULL")) + (hit ? " resolves" : " does not resolve");
            if (p) cJSON_free(p);
            break;
        }
    }
    char *txt = da ? cJSON_PrintUnformatted(da) : nullptr;
    trace += " h" + std::to_string(txt ? hash_str(txt) : 0);
    if (txt) cJSON_free(txt);
    cJSON_Delete(da);
    cJSON_Delete(db);
    w.stats.probes["utils_case_insensitive_variants"]++;
    w.log.add("utils_ci " + trace);
}

// ------------------------------------------------------------------ C11 duplicate oracles
static void collect_blocks(const cJSON *n, std::vector<const void *> &owned, std::vector<const void *> &constkeys, size_t &budget) {
    if (!n || budget == 0) return;
    budget--;
    owned.push_back(n);
    if (n->string) { if (n->type & cJSON_StringIsConst) constkeys.push_back(n->string); else owned.push_back(n->string); }
    if (!(n->type & cJSON_IsReference)) {
        if (n->valuestring) owned.push_back(n->valuestring);
        for (const cJSON *c = n->child; c; c = c->next) collect_blocks(c, owned, constkeys, budget);
    }
}
DEFOP(dupcheck) {
    // duplicate + the C11 equalities: compares equal, prints identically, shares no owned memory
    int slot = w.free_slot();
    if (slot < 0) { w.noop(st, "no free slot"); return; }
    MVal *x = w.pick(st.A(0), st.A(1), [&](MVal *) { return true; });
    if (!x) { w.noop(st, "no node"); return; }
    static const int truthy[] = {1, 1, 1, 2, -1, 4, 255, 1024};   // cJSON_bool is an int: every non-zero value means "recursive"
    cJSON *r = cJSON_Duplicate(x->c, truthy[((uint64_t)st.A(2)) % 8]);
    if (!r) { w.mismatch("dup-result", "recursive Duplicate returned NULL for " + mv_dump(x, 80)); return; }
    MVal *m = mv_clone_value(x);
    {   // key facts
        std::function<void(MVal *, const MVal *)> rec = [&](MVal *d, const MVal *s) {
            d->keystate = s->keystate; d->key = s->key; d->constkey = s->constkey; d->keypool = s->keypool;
            auto sk = view_kids(s);
            for (size_t i = 0; i < d->kids.size() && i < sk.size(); i++) rec(d->kids[i], sk[i]);
        };
        rec(m, x);
    }
    m->c = r;
    w.slots[slot] = m;
    std::string why;
    if (!walk_check(r, m, true, why)) { w.mismatch("dup-result", "copy differs from the source: " + why); return; }
    // keyless object members / unknown keys make Compare and printing ill-defined: only check on clean trees
    std::string dw;
    bool clean = true;
    { std::vector<MVal *> all; mv_collect(m, all); for (MVal *k : all) { if (k->type == T_INVALID) clean = false; if (k->parent && k->parent->type == T_OBJECT && k->keystate != K_KNOWN) clean = false; if (k->type == T_NUMBER && !std::isfinite(k->num)) clean = false; } }
    if (clean) {
        bool distinct = true;
        { std::vector<MVal *> all; mv_collect(m, all); for (MVal *o : all) if (o->type == T_OBJECT) for (size_t i = 0; i < o->kids.size(); i++) for (size_t j = 0; j < i; j++) if (o->kids[i]->key == o->kids[j]->key) distinct = false; }
        if (distinct && !cJSON_Compare(x->c, r, 1)) { w.mismatch("dup-equal", "copy does not compare equal to its source " + mv_dump(x, 100)); return; }
        for (int fmt = 0; fmt < 2; fmt++) {
            char *a = fmt ? cJSON_Print(x->c) : cJSON_PrintUnformatted(x->c);
            TextGuard ga(a);
            char *b = fmt ? cJSON_Print(r) : cJSON_PrintUnformatted(r);
            TextGuard gb(b);
            if (!a || !b) { if (a || b) { w.mismatch("dup-print", "only one of source and copy can be printed"); return; } continue; }
            if (strcmp(a, b) != 0) { w.mismatch("dup-print", std::string("copy prints differently: '") + show_bytes(b, 100) + "' vs source '" + show_bytes(a, 100) + "'"); return; }
        }
    }
    // address disjointness of owned memory; constant keys are the only shared pointers
    std::vector<const void *> so, sc, co, cc;
    size_t b1 = 2000000, b2 = 2000000;
    collect_blocks(x->c, so, sc, b1);
    collect_blocks(r, co, cc, b2);
    std::sort(so.begin(), so.end());
    for (const void *p : co) if (std::binary_search(so.begin(), so.end(), p)) { w.mismatch("dup-shared", "copy shares an owned block with its source"); return; }
    for (const void *p : co) if (pool().owns(p)) { w.mismatch("dup-shared", "copy owns a pointer into caller memory"); return; }
    for (const void *p : co) if (!asim::is_live_block(p)) { w.mismatch("dup-shared", "copy holds a pointer that is not a live block of the allocator"); return; }
    for (const void *p : cc) if (!pool().owns(p)) { w.mismatch("dup-shared", "copy marks a key constant that is not the caller's constant key"); return; }
    if (x->refkind != R_NONE || [&] { std::vector<MVal *> all; mv_collect(x, all); for (MVal *k : all) if (k->refkind) return true; return false; }()) w.stats.probes["dup_with_references"]++;
    if (!cc.empty()) w.stats.probes["dup_with_constant_keys"]++;
    if (m->is_container() && m->kids.size() >= 2) w.mark_nontrivial();
    // "editing or deleting either tree never changes the other": from here on a crash inside an edit of this history counts
    // (the driver replays the history without its duplicates to see whether it needs them)
    if (w.cfg.judge_independence && w.crash_judged_from > w.cur_step) w.crash_judged_from = w.cur_step + 1;
    w.log.add("dupcheck -> s" + I(slot) + " " + mv_dump(m, 60));
}
// "the source is never modified": every field of every node of a chain, before and after the call
static std::vector<cJSON> snapshot_chain(const cJSON *root, size_t max_nodes) {
    std::vector<cJSON> v;
    for (const cJSON *c = root; c && v.size() < max_nodes; c = c->child) v.push_back(*c);
    return v;
}
static bool same_fields(const cJSON &a, const cJSON &b) {
    return a.next == b.next && a.prev == b.prev && a.child == b.child && a.type == b.type && a.valuestring == b.valuestring && a.valueint == b.valueint &&
           memcmp(&a.valuedouble, &b.valuedouble, sizeof(double)) == 0 && a.string == b.string;
}
static bool chain_unchanged(const cJSON *root, const std::vector<cJSON> &before, std::string &why) {
    size_t i = 0;
    for (const cJSON *c = root; c && i < before.size(); c = before[i].child, i++)
        if (!same_fields(*c, before[i])) {
            why = "node at level " + std::to_string(i) + " changed (type " + std::to_string(before[i].type) + " -> " + std::to_string(c->type) + ")";
            return false;
        }
    return true;
}
DEFOP(dup_deep) {
    // chains around CJSON_CIRCULAR_LIMIT built through the API (stage-setting), then the judged Duplicate
    static const int depths[] = {100, 5000, 9999, 10000, 10001, 10002, 12000, 30000};
    int depth = depths[(uint64_t)st.A(0) % 8];
    bool obj = st.A(1) & 1;
    cJSON *root = obj ? cJSON_CreateObject() : cJSON_CreateArray();
    if (!root) { w.noop(st, "alloc"); return; }
    cJSON *cur = root;
    for (int d = 1; d < depth; d++) {
        cJSON *n = obj ? cJSON_CreateObject() : cJSON_CreateArray();
        if (!n) break;
        if (obj) cJSON_AddItemToObject(cur, "k", n); else cJSON_AddItemToArray(cur, n);
        cur = n;
    }
    size_t live_before = asim::live_blocks();
    std::vector<cJSON> before = snapshot_chain(root, (size_t)depth + 1);
    cJSON *r = cJSON_Duplicate(root, 1);
    // depth counts containers; the innermost container has no child, so `depth` containers mean nesting depth-1 below the root
    bool must_refuse = depth - 1 > CJSON_CIRCULAR_LIMIT, must_accept = depth - 1 <= CJSON_CIRCULAR_LIMIT - 1;
    std::string ctx = " [" + I(depth) + " nested " + (obj ? "objects" : "arrays") + ", limit " + I(CJSON_CIRCULAR_LIMIT) + "]";
    if (r == nullptr && asim::live_blocks() != live_before) { cJSON_Delete(root); w.mismatch("dup-deep-leak", "refused duplicate leaves " + I((int64_t)(asim::live_blocks() - live_before)) + " blocks allocated" + ctx); return; }
    if (r) {
        // walk the copy iteratively
        int got = 0;
        for (const cJSON *c = r; c; c = c->child) { got++; if (got > depth + 1) break; }
        cJSON_Delete(r);
        if (got != depth) { cJSON_Delete(root); w.mismatch("dup-deep", "copy has " + I(got) + " levels, source has " + I(depth) + ctx); return; }
    }
    // source unmodified: still the same chain
    { int got = 0; for (const cJSON *c = root; c; c = c->child) { got++; if (got > depth + 1) break; } if (got != depth) { w.mismatch("dup-deep", "source chain changed" + ctx); return; } }
    { std::string cw; if (!chain_unchanged(root, before, cw)) { w.mismatch("dup-deep", "the source was modified by the duplicate: " + cw + ctx); return; } }
    cJSON_Delete(root);
    if (must_refuse && r) { w.mismatch("dup-deep", "structure nested deeper than CJSON_CIRCULAR_LIMIT was duplicated" + ctx); return; }
    if (must_accept && !r) { w.mismatch("dup-deep", "structure within CJSON_CIRCULAR_LIMIT was refused" + ctx); return; }
    w.stats.probes[r ? "dup_deep_accepted" : "dup_deep_refused"]++;
    w.mark_nontrivial();
    w.log.add("dup_deep " + I(depth) + " -> " + (r ? "copy" : "NULL"));
}
DEFOP(dup_cyclic) {
    // a cycle built through the API: AddItemToArray(descendant, root). Judged: Duplicate refuses it, leaks nothing, source untouched.
    int len = 1 + (int)((uint64_t)st.A(0) % 5);
    bool obj = st.A(1) & 1;
    std::vector<cJSON *> chain;
    for (int i = 0; i < len; i++) {
        cJSON *n = obj ? cJSON_CreateObject() : cJSON_CreateArray();
        if (!n) { for (cJSON *c : chain) { c->child = nullptr; cJSON_Delete(c); } w.noop(st, "alloc"); return; }
        if (!chain.empty()) { if (obj) cJSON_AddItemToObject(chain.back(), "k", n); else cJSON_AddItemToArray(chain.back(), n); }
        chain.push_back(n);
    }
    cJSON *root = chain[0], *tail = chain.back();
    cJSON_bool added = (len > 1) ? (obj ? cJSON_AddItemToObject(tail, "loop", root) : cJSON_AddItemToArray(tail, root)) : 0;
    if (len == 1) {
        // a one-node cycle cannot be built through the add calls (self-insertion is refused)
        cJSON_Delete(root);
        w.noop(st, "single node");
        return;
    }
    if (!added) { for (cJSON *c : chain) { c->child = nullptr; c->next = c->prev = nullptr; cJSON_Delete(c); } w.noop(st, "cycle not built"); return; }
    size_t live_before = asim::live_blocks();
    std::vector<cJSON> before = snapshot_chain(root, (size_t)len);
    cJSON *r = cJSON_Duplicate(root, 1);
    size_t live_after = asim::live_blocks();
    bool intact = tail->child == root && root->next == nullptr && root->prev == root;
    { std::string cw; if (!chain_unchanged(root, before, cw)) intact = false; }
    for (int i = 0; i + 1 < len; i++) if (chain[(size_t)i]->child != chain[(size_t)i + 1]) intact = false;
    // break the cycle before releasing anything
    tail->child = nullptr;
    root->prev = root->next = nullptr;
    if (r) {
        // a "copy" of a cyclic structure: cannot be released safely; report
        cJSON_Delete(root);
        w.mismatch("dup-cyclic", "a cyclic structure of " + I(len) + " containers was duplicated instead of refused");
        return;
    }
    cJSON_Delete(root);
    if (live_after != live_before) { w.mismatch("dup-cyclic-leak", "refusing a cyclic structure leaves " + I((int64_t)(live_after - live_before)) + " blocks allocated"); return; }
    if (!intact) { w.mismatch("dup-cyclic", "the source structure was modified by the refused duplicate"); return; }
    w.stats.probes["dup_cyclic_refused"]++;
    w.mark_nontrivial();
    w.log.add("dup_cyclic len " + I(len) + " -> NULL");
}

DEFOP(dup_wide) {
    // a flat container with about CJSON_CIRCULAR_LIMIT children is well-formed and shallow: Duplicate must copy it
    static const int widths[] = {9999, 10000, 10001, 10002, 15000, 25000};
    int n = widths[(uint64_t)st.A(0) % 6];
    int depth = (int)((uint64_t)st.A(1) % 3);  // wrap the wide array in 0, 1 or 100 arrays
    if (depth == 2) depth = 100;
    std::vector<int> v((size_t)n);
    for (int i = 0; i < n; i++) v[(size_t)i] = i;
    cJSON *root = cJSON_CreateIntArray(v.data(), n);
    if (!root) { w.noop(st, "alloc"); return; }
    for (int d = 0; d < depth; d++) { cJSON *p = cJSON_CreateArray(); if (!p) break; cJSON_AddItemToArray(p, root); root = p; }
    cJSON *r = cJSON_Duplicate(root, 1);
    std::string ctx = " [array of " + I(n) + " numbers inside " + I(depth) + " arrays]";
    if (!r) { cJSON_Delete(root); w.mismatch("dup-wide", "a well-formed shallow tree was refused" + ctx); return; }
    bool eq = cJSON_Compare(root, r, 1) != 0;
    const cJSON *in = r;
    for (int d = 0; d < depth && in; d++) in = in->child;
    int size = in ? cJSON_GetArraySize(in) : -1;
    cJSON_Delete(r);
    cJSON_Delete(root);
    if (size != n) { w.mismatch("dup-wide", "copy holds " + I(size) + " items" + ctx); return; }
    if (!eq) { w.mismatch("dup-wide", "copy does not compare equal" + ctx); return; }
    w.stats.probes["dup_wide"]++;
    w.mark_nontrivial();
    w.log.add("dup_wide " + I(n) + " depth " + I(depth) + " ok");
}
DEFOP(dup_refcycle) {
    // a cycle that runs only through a reference node: list = [..]; AddItemReferenceToArray(list, list)
    int n = 1 + (int)((uint64_t)st.A(0) % 4);
    bool obj = st.A(1) & 1;
    cJSON *list = obj ? cJSON_CreateObject() : cJSON_CreateArray();
    if (!list) { w.noop(st, "alloc"); return; }
    for (int i = 0; i < n; i++) { if (obj) cJSON_AddNumberToObject(list, "n", i); else cJSON_AddItemToArray(list, cJSON_CreateNumber(i)); }
    cJSON_bool added = obj ? cJSON_AddItemReferenceToObject(list, "self", list) : cJSON_AddItemReferenceToArray(list, list);
    if (!added) { cJSON_Delete(list); w.noop(st, "reference not added"); return; }
    size_t live_before = asim::live_blocks();
    std::vector<cJSON> before;
    before.push_back(*list);
    for (const cJSON *c = list->child; c; c = c->next) before.push_back(*c);
    cJSON *r = cJSON_Duplicate(list, 1);
    size_t live_after = asim::live_blocks();
    bool src_same = same_fields(*list, before[0]);
    { size_t i = 1; for (const cJSON *c = list->child; c && i < before.size(); c = c->next, i++) if (!same_fields(*c, before[i])) src_same = false; }
    if (!r && !src_same) { cJSON_Delete(list); w.mismatch("dup-cyclic", "the source structure was modified by the refused duplicate (reference cycle)"); return; }
    if (r) {
        cJSON_Delete(list);  // the reference node does not own the children it points at
        w.mismatch("dup-cyclic", "a structure that is cyclic through a reference node was duplicated instead of refused");
        return;
    }
    cJSON_Delete(list);
    if (live_after != live_before) { w.mismatch("dup-cyclic-leak", "refusing a reference cycle leaves " + I((int64_t)(live_after - live_before)) + " blocks allocated"); return; }
    w.stats.probes["dup_refcycle_refused"]++;
    w.mark_nontrivial();
    w.log.add("dup_refcycle -> NULL");
}
// C19: objects beyond 2^16 members (merge sort recursion deeper than 16)
DEFOP(sort_big) {
    static const int sizes[] = {65536, 65537, 70000, 131073};
    int n = sizes[(uint64_t)st.A(0) % 4];
    bool cs = st.A(1) & 1;
    cJSON *o = cJSON_CreateObject();
    if (!o) { w.noop(st, "alloc"); return; }
    Rng r((uint64_t)st.A(2));
    for (int i = 0; i < n; i++) {
        char key[24];
        snprintf(key, sizeof key, "%c%llu", "kKqQ"[r.below(4)], (unsigned long long)r.below(1000000000ull));
        if (!cJSON_AddNumberToObject(o, key, i)) { cJSON_Delete(o); w.noop(st, "alloc"); return; }
    }
    if (cs) cJSONUtils_SortObjectCaseSensitive(o); else cJSONUtils_SortObject(o);
    int count = 0;
    const cJSON *prev = nullptr;
    std::string bad;
    for (const cJSON *c = o->child; c; c = c->next) {
        if (++count > n) { bad = "more members than before"; break; }
        if (prev) {
            if (c->prev != prev) { bad = "backward link does not mirror the forward link"; break; }
            if (!key_le(prev->string, c->string, cs)) { bad = std::string("keys not non-decreasing: '") + prev->string + "' before '" + c->string + "'"; break; }
        }
        prev = c;
    }
    if (bad.empty() && count != n) bad = "member count " + I(count) + " instead of " + I(n);
    if (bad.empty() && o->child->prev != prev) bad = "first child's backward link does not designate the last child";
    cJSON_Delete(o);
    if (!bad.empty()) { w.mismatch("sort-big", "object of " + I(n) + " members after sorting: " + bad); return; }
    w.stats.probes["sort_big"]++;
    w.mark_nontrivial();
    w.log.add("sort_big " + I(n) + " ok");
}

// ------------------------------------------------------------------ C14 hook epochs
DEFOP(hooks) {
    // an epoch ends with an empty ledger: release everything through the current configuration first
    for (int round = 0; round < NSLOTS + 1; round++)
        for (int i = 0; i < NSLOTS; i++) {
            if (!w.slots[i] || w.slots[i]->frozen != 0) continue;
            cJSON *c = w.slots[i]->c;
            w.model_delete(w.slots[i]);
            w.slots[i] = nullptr;
            cJSON_Delete(c);
        }
    w.drop_pending();
    for (int i = 0; i < NSLOTS; i++) if (w.slots[i]) { w.noop(st, "frozen root left"); return; }
    std::string v = asim::take_violation();
    if (!v.empty()) { if (w.cfg.judge_hooks || w.cfg.judge_memory) w.violation("hooks-ledger", v + " [end of epoch]"); w.discard(v); }
    if (asim::live_blocks() != w.base_live) {
        std::string d = "at the end of an epoch " + I((int64_t)(asim::live_blocks() - w.base_live)) + " block(s) are still allocated:" + asim::describe_live();
        if (w.cfg.judge_memory) w.violation("leak", d);
        w.discard(d);  // C14 states where blocks come from and go to, not that every block is released: a leak is C07's
    }
    int hc = (int)((uint64_t)st.A(0) % 6);
    w.install_hooks(hc);
    w.stats.fault_counts["hook_reconfig"]++;
    static const char *names[] = {"default", "both-custom", "malloc-only", "free-only", "null-members", "reset-NULL"};
    w.stats.fault_counts[std::string("hooks_") + names[hc]]++;
    w.log.add(std::string("hooks -> ") + names[hc]);
}
