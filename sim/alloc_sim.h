// Allocator simulation: seams S1 (custom hooks, private arena) and S2 (the
// library's direct malloc/free/realloc, renamed to sim_* at compile time).
#pragma once
#include <cstddef>
#include <cstdint>
#include <string>
#include <vector>

extern "C" {
void *sim_malloc(size_t n);
void sim_free(void *p);
void *sim_realloc(void *p, size_t n);
void cjson_verif_yield(int site);
}

namespace asim {
enum Side { DEF = 0, CUST = 1 };
enum ReallocMode { RA_MOVE = 0, RA_INPLACE = 1 };

void *cust_malloc(size_t n);
void cust_free(void *p);
// one-sided hook configurations (C14): blocks that libc free() must be able to release / release of libc blocks
void *cust_malloc_m(size_t n);   // "malloc only" epoch: custom malloc, released by the default free
void cust_free_f(void *p);       // "free only" epoch: default malloc, released by the custom free
// which routing is legal right now (set when hooks are (re)configured)
enum Epoch { EP_DEFAULT = 0, EP_BOTH = 1, EP_MALLOC_ONLY = 2, EP_FREE_ONLY = 3 };
void set_epoch(Epoch e);

struct Counters {
    uint64_t mallocs[2] = {0, 0}, frees[2] = {0, 0}, reallocs = 0, free_null[2] = {0, 0};
    uint64_t fail_fired = 0, fail_on_realloc = 0, realloc_moved = 0, realloc_inplace = 0, bytes = 0, reused = 0;
};

void init();                              // once per process
void reset_run(unsigned char fill, ReallocMode m, bool reuse = false);  // new run: empty ledger, fresh arena; reuse: the custom allocator
                                                                       // hands a released block to the next request of the same size
void begin_step();                        // resets the per-step request counter
void arm_fail(long k);                    // k-th request of the current step returns NULL (0: off)
long requests_in_step();                  // allocation requests (malloc/realloc) since begin_step
bool fail_fired_in_step();
size_t live_blocks();                     // live blocks in the ledger (both sides)
size_t live_bytes();
std::vector<uint64_t> live_serials();     // ordered by serial
uint64_t next_serial();
bool is_live_block(const void *p);        // p is the start of a live ledger block
bool in_arena(const void *p);
// first ledger violation recorded since the last take (empty: none)
std::string take_violation();
bool has_violation();
const Counters &counters();               // per process, cumulative
void set_yield(void (*fn)(int site));     // scheduler hook; called at every allocator entry
extern uint64_t probe_hits[64];           // reach probes (CJSON_VERIF_YIELD sites)
// describe live blocks for leak reports (serial, size, side, step)
std::string describe_live(size_t max = 8);
// for sanitizer reports on the custom arena: what the faulting address is (freed block, redzone, ...)
const char *classify_address(const void *p);
size_t live_blocks_of_step(int step);   // live blocks that were allocated while executing that step
void set_step_index(int idx);
}  // namespace asim
