// Seed derivation and the only PRNG of the simulator. Plan generation is the
// only consumer; execution never draws from it.
#pragma once
#include <cstdint>
#include <string>

static inline uint64_t splitmix64(uint64_t &s) {
    uint64_t z = (s += 0x9E3779B97F4A7C15ull);
    z = (z ^ (z >> 30)) * 0xBF58476D1CE4E5B9ull;
    z = (z ^ (z >> 27)) * 0x94D049BB133111EBull;
    return z ^ (z >> 31);
}
static inline uint64_t mix64(uint64_t a, uint64_t b) {
    uint64_t s = a ^ (b * 0xD6E8FEB86659FD93ull + 0x2545F4914F6CDD1Dull);
    splitmix64(s);
    return splitmix64(s);
}
static inline uint64_t hash_str(const std::string &x, uint64_t h = 1469598103934665603ull) {
    for (unsigned char c : x) { h ^= c; h *= 1099511628211ull; }
    return h;
}
struct Rng {
    uint64_t s;
    explicit Rng(uint64_t seed = 1) : s(seed) {}
    uint64_t next() { return splitmix64(s); }
    // uniform in [0,n)
    uint64_t below(uint64_t n) { return n ? next() % n : 0; }
    int64_t range(int64_t lo, int64_t hi) { return lo + (int64_t)below((uint64_t)(hi - lo + 1)); }
    bool chance(unsigned num, unsigned den) { return below(den) < num; }
    double unit() { return (double)(next() >> 11) * (1.0 / 9007199254740992.0); }
};
