#pragma once
#include "plan.h"
#include "prng.h"
// plan(seed, property, run) is a pure function: model-free, library-blind.
Plan gen_plan(const std::string &property, uint64_t seed, int64_t run);
const char *engine_of(const std::string &property);
