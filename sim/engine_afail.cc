// Engine afail (C08): a scenario is (fault-free prefix history, target call, fault-free suffix). The target
// call is first run fault-free to count its n allocation requests; sub-execution k in 1..n replays the
// scenario and refuses request k.
#include <algorithm>
#include <cstring>
#include "gen.h"
#include "model.h"
#include "run.h"

static int64_t R(Rng &r) { return (int64_t)(r.next() >> 2); }
static int64_t d2bits(double d) { int64_t b; memcpy(&b, &d, 8); return b; }
Plan gen_plan(const std::string &property, uint64_t seed, int64_t run);

static Step mk(const std::string &op, std::initializer_list<int64_t> a = {}, std::initializer_list<std::string> s = {}) {
    Step st; st.op = op; st.a.assign(a.begin(), a.end()); st.s.assign(s.begin(), s.end()); return st;
}
Plan gen_afail_plan(const std::string &prop, uint64_t seed, int64_t run) {
    // prefix: reuse the C07 mix (constructors, edits, references, parse, duplicate)
    Plan base = gen_plan("C07", mix64(seed, 0xAFA11), run);
    Plan p;
    p.engine = "afail"; p.property = prop; p.seed = seed; p.run = run;
    p.knobs = base.knobs;
    Rng r(mix64(mix64(seed, hash_str(prop)), (uint64_t)run));
    size_t keep = (size_t)r.range(2, 25);
    for (size_t i = 0; i < base.steps.size() && i < keep; i++) {
        const std::string &op = base.steps[i].op;
        if (op == "refuse" || op == "print") continue;
        p.steps.push_back(base.steps[i]);
    }
    static const char *keys[] = {"a", "b", "A", "k1", "name", "", "ck", "longer-key-to-copy-0123456789"};
    std::string key = keys[r.below(8)];
    Step t;
    switch (r.below(24)) {
        case 0: case 1: case 2: case 3: t = mk("parse", {R(r), R(r), R(r), R(r)}); break;
        case 4: case 5: case 6: case 7: {
            // often on a freshly parsed document with nested containers; PrintBuffered (any initial size) twice as often as the others
            if (r.chance(1, 2)) p.steps.push_back(mk("parse", {R(r), R(r), R(r), R(r)}));
            static const int64_t variants[] = {0, 1, 2, 2};
            t = mk("print", {R(r), R(r), variants[r.below(4)], R(r), R(r)});
            break;
        }
        case 8: if (r.chance(1, 2)) t = mk("new_string", {}, {gen_string(r, false, false)}); else t = mk(r.chance(1, 2) ? "new_raw" : "new_number", {d2bits(1.5)}, {"[1]"}); break;
        case 9: { static const char *c[] = {"new_null", "new_true", "new_false", "new_bool", "new_array", "new_object", "new_strref", "new_arrref", "new_objref"}; t = mk(c[r.below(9)], {R(r), R(r)}); break; }
        case 10: case 11: { static const char *c[] = {"bulk_int", "bulk_float", "bulk_double", "bulk_string"}; t = mk(c[r.below(4)], {(int64_t)r.range(0, 13), R(r)}); break; }
        case 12: case 13: case 14: t = mk("addh", {R(r), R(r), R(r), d2bits(2.25)}, {key, gen_string(r, false, false)}); break;
        case 15: t = mk("add_obj", {R(r), R(r), R(r)}, {key}); break;
        case 16: t = mk("add_ref_arr", {R(r), R(r), R(r), R(r)}); break;
        case 17: t = mk("add_ref_obj", {R(r), R(r), R(r), R(r)}, {key}); break;
        case 18: case 19: t = mk("dup", {R(r), R(r), (int64_t)r.chance(3, 4)}); break;
        case 20: t = mk("replace_key", {R(r), R(r), R(r), R(r)}, {key}); break;
        case 21: t = mk("replace_key_alias", {R(r), R(r), R(r), R(r)}); break;
        case 22: t = mk("set_valuestring", {R(r), R(r), 0, 0}, {gen_string(r, false, false, 40) + "-grow-grow-grow-grow"}); break;
        default: t = mk("add_obj_alias", {R(r), R(r), R(r)}); break;
    }
    if (t.op == "replace_key" || t.op == "replace_key_alias" || t.op == "add_obj" || t.op == "add_obj_alias") {
        // these calls re-key the item they are given: make sure detached items that already carry an owned or a constant key exist
        p.steps.push_back(mk("new_object"));
        p.steps.push_back(mk(r.chance(1, 2) ? "add_obj_cs" : "addh", {R(r), R(r), R(r), R(r)}, {key, "v"}));
        p.steps.push_back(mk("detach_ptr", {R(r), R(r), R(r)}));
        p.steps.push_back(mk("addh", {R(r), R(r), R(r), R(r)}, {key, "w"}));
    }
    t.task = 9;  // the faulted call
    p.steps.push_back(t);
    // suffix: the library must still be usable
    p.steps.push_back(mk("parse", {R(r), R(r), R(r), R(r)}));
    p.steps.push_back(mk("new_object"));
    p.steps.push_back(mk("addh", {R(r), R(r), R(r), d2bits(3.0)}, {"after", "x"}));
    p.steps.push_back(mk("print", {R(r), R(r), R(r), R(r), R(r)}));
    p.steps.push_back(mk("dup", {R(r), R(r), 1}));
    p.steps.push_back(mk("delete", {R(r)}));
    return p;
}

static std::vector<std::string> print_roots(World &w) {
    std::vector<std::string> out;
    for (int i = 0; i < NSLOTS; i++) {
        if (!w.slots[i]) { out.push_back("<empty>"); continue; }
        std::string both;
        for (int fmt = 0; fmt < 2; fmt++) {
            char *t = fmt ? cJSON_Print(w.slots[i]->c) : cJSON_PrintUnformatted(w.slots[i]->c);
            both += t ? t : "<unprintable>";
            both.push_back('\x1e');
            if (t) cJSON_free(t);
        }
        out.push_back(both);
    }
    return out;
}

RunResult run_afail(const Plan &p, EventLog &log, RunStats &stats, Progress *prog) {
    RunResult rr;
    asim::reset_run((unsigned char)p.knob("fill", 0xA5), p.knob("realloc", 0) ? asim::RA_INPLACE : asim::RA_MOVE, p.knob("reuse", 0) != 0);
    borrowed::reset_run();
    WorldCfg cfg = cfg_for(p.property);
    cfg.hookcfg = p.knob("hooks", 0) ? HK_BOTH : HK_DEFAULT;
    int target = -1;
    for (size_t i = 0; i < p.steps.size(); i++) if (p.steps[i].task == 9) { target = (int)i; break; }
    uint64_t judged0 = stats.judged_steps;
    {
        World w(cfg, log, stats);
        w.profile = (int)p.knob("profile", 0);
        if (prog) w.live_judged = &prog->judged;
        w.armed_step = target;
        // the fault-free counting run (sub -1) only counts requests: whatever deviates there is not caused by a refused
        // allocation and belongs to another property (the scenario is then not enumerated)
        bool faulted_run = p.sub > 0;
        w.force_judged_step = faulted_run ? target : -1;
        w.crash_judged_from = (faulted_run && target >= 0) ? target : (1 << 30);
        w.ledger_judged_from_target = faulted_run;
        if (!faulted_run) w.cfg.fault_mode_counting = true;
        w.arm_fail_k = p.sub > 0 ? (long)p.sub : 0;
        try {
            for (size_t i = 0; i < p.steps.size(); i++) {
                if (prog) prog->step = (int)i;
                if ((int)i != target) { w.exec(p.steps[i], (int)i); continue; }
                std::vector<uint64_t> live0 = asim::live_serials();
                std::vector<std::string> text0 = print_roots(w);
                w.exec(p.steps[i], (int)i);
                long n = asim::requests_in_step();
                bool fired = asim::fail_fired_in_step();
                if (p.sub <= 0) rr.subcount = n > 300 ? 300 : n;
                std::string opn = p.steps[i].op;
                if (fired) {
                    stats.fault_counts[cfg.hookcfg == HK_BOTH ? "alloc_fail_custom_malloc" : "alloc_fail_default_allocator"]++;
                    stats.fault_counts["alloc_fail_in_" + opn]++;
                    stats.state_hashes.push_back(mix64(mix64(hash_str(opn), (uint64_t)p.sub), (uint64_t)cfg.hookcfg * 2 + (w.failed_cleanly ? 1 : 0)));
                    if (p.sub >= 2) w.mark_nontrivial();
                }
                if (w.failed_cleanly) {
                    std::vector<uint64_t> live1 = asim::live_serials();
                    if (live1 != live0) {
                        std::string d;
                        size_t extra = 0, lost = 0;
                        for (uint64_t s : live1) if (!std::binary_search(live0.begin(), live0.end(), s)) extra++;
                        for (uint64_t s : live0) if (!std::binary_search(live1.begin(), live1.end(), s)) lost++;
                        w.violation("failed-call-ledger", opn + " reported failure after refused request " + std::to_string(p.sub) + " but " + std::to_string(extra) + " block(s) allocated during the call are still allocated and " + std::to_string(lost) + " pre-existing block(s) were released:" + asim::describe_live(6));
                    }
                    std::vector<std::string> text1 = print_roots(w);
                    for (int s = 0; s < NSLOTS; s++)
                        if (text0[(size_t)s] != text1[(size_t)s]) w.violation("failed-call-tree-modified", opn + " reported failure after refused request " + std::to_string(p.sub) + " but the tree in slot " + std::to_string(s) + " prints differently: '" + show_bytes(text1[(size_t)s], 80) + "' vs '" + show_bytes(text0[(size_t)s], 80) + "'");
                    stats.probes["failed_cleanly"]++;
                } else if (fired) stats.probes["completed_despite_failure"]++;
            }
            if (prog) { prog->step = (int)p.steps.size(); prog->judged = faulted_run ? 1 : 0; }
            w.finish();
        } catch (Stop &s) {
            rr.outcome = s.o;
            w.abandon();
        }
    }
    cJSON_InitHooks(nullptr);
    asim::set_epoch(asim::EP_DEFAULT);
    rr.evaluations = (p.sub > 0) ? 1 : 0;
    (void)judged0;
    return rr;
}
