#include "run.h"
#include "gen.h"
RunResult run_afail(const Plan &, EventLog &, RunStats &, Progress *) { return RunResult(); }
Plan gen_afail_plan(const std::string &p, uint64_t s, int64_t r) { return gen_plan(p, s, r); }
