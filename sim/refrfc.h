// Reference evaluators on model values: RFC 6901 (pointer), RFC 6902 (patch),
// RFC 7396 (merge patch). Written from the RFCs.
#pragma once
#include <string>
#include <vector>
#include "model.h"

// split a JSON pointer into unescaped tokens; false if it is not syntactically valid
bool ptr_split(const std::string &ptr, std::vector<std::string> &tokens);
std::string ptr_escape(const std::string &token);
// resolve; NULL if it designates nothing
MVal *ptr_resolve(MVal *doc, const std::string &ptr);
// all valid pointers of a document in pre-order ("" first), with the node each designates
void ptr_enumerate(MVal *doc, std::vector<std::pair<std::string, MVal *>> &out, const std::string &prefix = "");

// RFC 6902: apply one operation object / a whole patch. *doc may be replaced. Returns true on success;
// on failure *doc is in an unspecified (but valid) state.
bool rfc6902_apply_op(MVal **doc, const MVal *op, std::string &why);
bool rfc6902_apply(MVal **doc, const MVal *patch, std::string &why);
// RFC 6902 equality (section 4.6). Numbers: exact, or - when rfc_number_tolerant is set - the library's own notion of
// numeric equality (relative DBL_EPSILON, property C12). Oracles that must not depend on which of the two a reader means
// evaluate both ways and accept agreement with either.
extern bool rfc_number_tolerant;
bool rfc_equal(const MVal *a, const MVal *b);

// RFC 7396: returns the new target (consumes and frees `target`, which may be NULL for "absent")
MVal *rfc7396_merge(MVal *target, const MVal *patch);
