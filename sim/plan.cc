#include "plan.h"
#include <cstdio>
#include <cstdlib>
#include <sstream>

std::string hex_encode(const std::string &b) {
    static const char *d = "0123456789abcdef";
    std::string o;
    o.reserve(b.size() * 2);
    for (unsigned char c : b) { o.push_back(d[c >> 4]); o.push_back(d[c & 15]); }
    return o;
}
static int hv(char c) {
    if (c >= '0' && c <= '9') return c - '0';
    if (c >= 'a' && c <= 'f') return c - 'a' + 10;
    if (c >= 'A' && c <= 'F') return c - 'A' + 10;
    return -1;
}
bool hex_decode(const std::string &h, std::string &out) {
    out.clear();
    if (h.size() % 2) return false;
    for (size_t i = 0; i < h.size(); i += 2) {
        int a = hv(h[i]), b = hv(h[i + 1]);
        if (a < 0 || b < 0) return false;
        out.push_back((char)(a * 16 + b));
    }
    return true;
}
std::string show_bytes(const std::string &b, size_t maxlen) {
    std::string o;
    char tmp[8];
    size_t n = 0;
    for (unsigned char c : b) {
        if (n++ >= maxlen) { o += "...(+" + std::to_string(b.size() - maxlen) + ")"; break; }
        if (c == '\\') o += "\\\\";
        else if (c >= 32 && c < 127) o.push_back((char)c);
        else { snprintf(tmp, sizeof tmp, "\\x%02x", c); o += tmp; }
    }
    return o;
}
std::string step_to_text(const Step &st) {
    std::ostringstream o;
    o << "step " << st.task << " " << st.op << " a=";
    for (size_t i = 0; i < st.a.size(); i++) { if (i) o << ","; o << st.a[i]; }
    o << " s=";
    for (size_t i = 0; i < st.s.size(); i++) { if (i) o << ","; o << "x" << hex_encode(st.s[i]); }
    return o.str();
}
std::string plan_to_text(const Plan &p) {
    std::ostringstream o;
    o << "cjsim-plan 1\n";
    o << "engine " << p.engine << "\n";
    o << "property " << p.property << "\n";
    o << "seed " << p.seed << " run " << p.run << " sub " << p.sub << "\n";
    for (auto &k : p.knobs) o << "knob " << k.first << " " << k.second << "\n";
    for (auto &s : p.steps) o << step_to_text(s) << "\n";
    if (!p.sched.empty()) {
        o << "sched";
        for (int c : p.sched) o << " " << c;
        o << "\n";
    }
    if (!p.expect.empty()) o << "expect " << p.expect << "\n";
    return o.str();
}
static std::vector<std::string> split(const std::string &s, char sep) {
    std::vector<std::string> v;
    std::string cur;
    for (char c : s) {
        if (c == sep) { v.push_back(cur); cur.clear(); } else cur.push_back(c);
    }
    v.push_back(cur);
    return v;
}
bool plan_from_text(const std::string &text, Plan &p, std::string &err) {
    p = Plan();
    std::istringstream in(text);
    std::string line;
    bool header = false;
    int ln = 0;
    while (std::getline(in, line)) {
        ln++;
        size_t hash = line.find(" #");
        if (hash != std::string::npos) line = line.substr(0, hash);
        while (!line.empty() && (line.back() == ' ' || line.back() == '\r')) line.pop_back();
        if (line.empty() || line[0] == '#') continue;
        std::istringstream ls(line);
        std::string kw;
        ls >> kw;
        if (kw == "cjsim-plan") { header = true; continue; }
        if (kw == "engine") { ls >> p.engine; continue; }
        if (kw == "property") { ls >> p.property; continue; }
        if (kw == "seed") {
            std::string t;
            ls >> p.seed >> t >> p.run >> t >> p.sub;
            continue;
        }
        if (kw == "knob") { std::string k; int64_t v = 0; ls >> k >> v; p.knobs[k] = v; continue; }
        if (kw == "expect") { std::string r; std::getline(ls, r); while (!r.empty() && r[0] == ' ') r.erase(0, 1); p.expect = r; continue; }
        if (kw == "sched") { int c; while (ls >> c) p.sched.push_back(c); continue; }
        if (kw == "step") {
            Step st;
            std::string af, sf;
            ls >> st.task >> st.op >> af >> sf;
            if (af.compare(0, 2, "a=") != 0 || sf.compare(0, 2, "s=") != 0) { err = "line " + std::to_string(ln) + ": bad step"; return false; }
            af = af.substr(2);
            sf = sf.substr(2);
            if (!af.empty()) for (auto &t : split(af, ',')) st.a.push_back(strtoll(t.c_str(), nullptr, 10));
            if (!sf.empty()) for (auto &t : split(sf, ',')) {
                if (t.empty() || t[0] != 'x') { err = "line " + std::to_string(ln) + ": bad bytes"; return false; }
                std::string b;
                if (!hex_decode(t.substr(1), b)) { err = "line " + std::to_string(ln) + ": bad hex"; return false; }
                st.s.push_back(b);
            }
            p.steps.push_back(st);
            continue;
        }
        err = "line " + std::to_string(ln) + ": unknown keyword " + kw;
        return false;
    }
    if (!header) { err = "missing header"; return false; }
    return true;
}
