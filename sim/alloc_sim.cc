#include "alloc_sim.h"
#include <sys/mman.h>
#include <cstdio>
#include <cstdlib>
#include <cstring>
#include <map>

#if defined(__has_feature)
#if __has_feature(address_sanitizer)
#define SIM_ASAN 1
#endif
#endif
#if defined(__SANITIZE_ADDRESS__)
#define SIM_ASAN 1
#endif
#ifdef SIM_ASAN
extern "C" void __asan_poison_memory_region(void const volatile *addr, size_t size);
extern "C" void __asan_unpoison_memory_region(void const volatile *addr, size_t size);
#define POISON(a, n) __asan_poison_memory_region((a), (n))
#define UNPOISON(a, n) __asan_unpoison_memory_region((a), (n))
#else
#define POISON(a, n) ((void)0)
#define UNPOISON(a, n) ((void)0)
#endif

namespace asim {

struct Block {
    size_t size;
    uint64_t serial;
    int step;
    Side side;
    bool live;
    size_t cap = 0;   // custom arena: usable bytes of the slot (reuse mode hands the slot out again)
};

static std::map<uintptr_t, Block> g_ledger;   // every block handed out in this run (freed ones stay, marked dead)
static size_t g_live = 0, g_live_bytes = 0;
static uint64_t g_serial = 0;
static long g_req = 0, g_fail_k = 0;
static bool g_fail_fired = false;
static int g_step = -1;
static unsigned char g_fill = 0xA5;
static ReallocMode g_ramode = RA_MOVE;
static std::string g_violation;
static Counters g_cnt;
static void (*g_yield)(int) = nullptr;
static Epoch g_epoch = EP_DEFAULT;
uint64_t probe_hits[64];

static const size_t ARENA_SIZE = (size_t)1 << 30;
static const size_t REDZONE = 32;
static unsigned char *g_arena = nullptr;
static size_t g_arena_used = 0;

static void violate(const std::string &v) {
    if (g_violation.empty()) g_violation = v;
}
void init() {
    if (g_arena) return;
    void *p = mmap(nullptr, ARENA_SIZE, PROT_READ | PROT_WRITE, MAP_PRIVATE | MAP_ANONYMOUS | MAP_NORESERVE, -1, 0);
    if (p == MAP_FAILED) { perror("mmap arena"); abort(); }
    g_arena = (unsigned char *)p;
    POISON(g_arena, ARENA_SIZE);
}
bool in_arena(const void *p) {
    return g_arena && (const unsigned char *)p >= g_arena && (const unsigned char *)p < g_arena + ARENA_SIZE;
}
static bool g_reuse = false;                                  // custom arena hands a released slot to the next request of the same size class (LIFO)
static std::map<size_t, std::vector<unsigned char *>> g_free_slots;
void reset_run(unsigned char fill, ReallocMode m, bool reuse) {
    init();
    g_reuse = reuse;
    g_free_slots.clear();
    // release default-side blocks that a previous (failed/abandoned) run left behind
    for (auto &kv : g_ledger)
        if (kv.second.live && kv.second.side == DEF) free((void *)kv.first);
    g_ledger.clear();
    g_live = 0; g_live_bytes = 0; g_serial = 0; g_req = 0; g_fail_k = 0; g_fail_fired = false; g_step = -1;
    g_fill = fill ? fill : 0xA5;
    g_ramode = m;
    g_violation.clear();
    g_epoch = EP_DEFAULT;
    if (g_arena_used) {
        UNPOISON(g_arena, g_arena_used);
        if (g_arena_used > (1u << 20)) madvise(g_arena, g_arena_used, MADV_DONTNEED);
        POISON(g_arena, g_arena_used);
    }
    g_arena_used = 0;
}
void begin_step() { g_req = 0; g_fail_k = 0; g_fail_fired = false; }
void set_step_index(int idx) { g_step = idx; }
void arm_fail(long k) { g_fail_k = k; if (k > 0) g_fail_fired = false; }
long requests_in_step() { return g_req; }
bool fail_fired_in_step() { return g_fail_fired; }
size_t live_blocks() { return g_live; }
size_t live_bytes() { return g_live_bytes; }
uint64_t next_serial() { return g_serial + 1; }
std::vector<uint64_t> live_serials() {
    std::vector<uint64_t> v;
    for (auto &kv : g_ledger) if (kv.second.live) v.push_back(kv.second.serial);
    // ordered by serial so that nothing depends on addresses
    for (size_t i = 1; i < v.size(); i++) { uint64_t x = v[i]; size_t j = i; while (j > 0 && v[j - 1] > x) { v[j] = v[j - 1]; j--; } v[j] = x; }
    return v;
}
bool is_live_block(const void *p) {
    auto it = g_ledger.find((uintptr_t)p);
    return it != g_ledger.end() && it->second.live;
}
std::string take_violation() { std::string v = g_violation; g_violation.clear(); return v; }
bool has_violation() { return !g_violation.empty(); }
const Counters &counters() { return g_cnt; }
void set_yield(void (*fn)(int)) { g_yield = fn; }
void set_epoch(Epoch e) { g_epoch = e; }
std::string describe_live(size_t max) {
    std::string o;
    size_t n = 0;
    std::vector<const Block *> bs;
    for (auto &kv : g_ledger) if (kv.second.live) bs.push_back(&kv.second);
    for (size_t i = 1; i < bs.size(); i++) { const Block *x = bs[i]; size_t j = i; while (j > 0 && bs[j - 1]->serial > x->serial) { bs[j] = bs[j - 1]; j--; } bs[j] = x; }
    for (auto b : bs) {
        if (n++ >= max) { o += " ..."; break; }
        char t[96];
        snprintf(t, sizeof t, " [#%llu %zuB %s step%d]", (unsigned long long)b->serial, b->size, b->side == DEF ? "libc" : "custom", b->step);
        o += t;
    }
    return o;
}

size_t live_blocks_of_step(int step) {
    size_t n = 0;
    for (auto &kv : g_ledger) if (kv.second.live && kv.second.step == step) n++;
    return n;
}
const char *classify_address(const void *p) {
    if (!in_arena(p)) return "not-in-custom-arena";
    uintptr_t a = (uintptr_t)p;
    auto it = g_ledger.upper_bound(a);
    if (it != g_ledger.begin()) {
        --it;
        if (it->second.side == CUST && a >= it->first && a < it->first + (it->second.size ? it->second.size : 1)) return it->second.live ? "inside-live-custom-block" : "custom-block-touched-after-release";
    }
    return "custom-block-out-of-bounds";
}
static bool should_fail() {
    g_req++;
    if (g_fail_k > 0 && g_req == g_fail_k) { g_fail_fired = true; g_cnt.fail_fired++; return true; }
    return false;
}
static void record(void *p, size_t n, Side side) {
    Block b{n, ++g_serial, g_step, side, true};
    g_ledger[(uintptr_t)p] = b;
    g_live++; g_live_bytes += n; g_cnt.bytes += n;
}

void *cust_malloc(size_t n) {
    if (g_yield) g_yield(100);
    g_cnt.mallocs[CUST]++;
    if (g_epoch != EP_BOTH) violate("routing: the custom malloc was called although the installed configuration does not route allocation to it");
    if (should_fail()) return nullptr;
    size_t need = ((n ? n : 1) + 15) & ~(size_t)15;
    unsigned char *p = nullptr;
    if (g_reuse) {
        // an allocator that hands the block just released to the next request of the same size (tcache, pools): a stale
        // pointer then designates a live block of somebody else
        auto fl = g_free_slots.find(need);
        if (fl != g_free_slots.end() && !fl->second.empty()) { p = fl->second.back(); fl->second.pop_back(); g_cnt.reused++; }
    }
    if (!p) {
        if (g_arena_used + 2 * REDZONE + need > ARENA_SIZE) { violate("sim: arena exhausted"); return nullptr; }
        p = g_arena + g_arena_used + REDZONE;  // redzone before; the next block's redzone (or arena poison) follows
        g_arena_used += REDZONE + need;
    }
    // a zero-size request yields one accessible byte, like malloc(0) -> malloc(1) on the default side (DESIGN 11)
    UNPOISON(p, n ? n : 1);
    memset(p, g_fill, n ? n : 1);
    record(p, n ? n : 1, CUST);
    g_ledger[(uintptr_t)p].cap = need;
    return p;
}
void cust_free(void *p) {
    if (g_yield) g_yield(101);
    g_cnt.frees[CUST]++;
    if (g_epoch != EP_BOTH) violate("routing: the custom free was called although the installed configuration does not route release to it");
    if (!p) { g_cnt.free_null[CUST]++; return; }
    auto it = g_ledger.find((uintptr_t)p);
    if (it == g_ledger.end() || it->second.side != CUST) {
        violate(in_arena(p) ? "custom free: pointer is not the start of a block the custom malloc returned"
                            : "custom free: received a pointer the custom malloc never returned (foreign/libc block)");
        return;
    }
    if (!it->second.live) { violate("custom free: block #" + std::to_string(it->second.serial) + " released twice"); return; }
    it->second.live = false;
    g_live--; g_live_bytes -= it->second.size;
#ifndef SIM_ASAN
    memset(p, 0xDD, it->second.size);
#endif
    POISON(p, it->second.size);  // quarantined for the whole run: never reused (unless the run simulates a reusing allocator)
    if (g_reuse && it->second.cap) g_free_slots[it->second.cap].push_back((unsigned char *)p);
}
void *cust_malloc_m(size_t n) {
    if (g_yield) g_yield(105);
    g_cnt.mallocs[CUST]++;
    if (g_epoch != EP_MALLOC_ONLY) violate("routing: the malloc-only custom malloc was called in another configuration");
    if (should_fail()) return nullptr;
    void *p = malloc(n ? n : 1);
    if (!p) abort();
    memset(p, g_fill, n);
    record(p, n, CUST);
    return p;
}
void cust_free_f(void *p) {
    if (g_yield) g_yield(106);
    g_cnt.frees[CUST]++;
    if (g_epoch != EP_FREE_ONLY) violate("routing: the free-only custom free was called in another configuration");
    if (!p) { g_cnt.free_null[CUST]++; return; }
    auto it = g_ledger.find((uintptr_t)p);
    if (it == g_ledger.end() || !it->second.live) { violate("custom free (free-only epoch): pointer is not a live block of the library"); return; }
    it->second.live = false;
    g_live--; g_live_bytes -= it->second.size;
    g_ledger.erase(it);
    free(p);
}
}  // namespace asim

using namespace asim;
extern "C" void *sim_malloc(size_t n) {
    if (g_yield) g_yield(102);
    g_cnt.mallocs[DEF]++;
    if (g_epoch == EP_BOTH || g_epoch == EP_MALLOC_ONLY) violate("routing: libc malloc was called on the library's behalf while a custom malloc is installed");
    if (should_fail()) return nullptr;
    void *p = malloc(n ? n : 1);
    if (!p) abort();
    memset(p, g_fill, n);
    record(p, n, DEF);
    return p;
}
extern "C" void sim_free(void *p) {
    if (g_yield) g_yield(103);
    g_cnt.frees[DEF]++;
    if (g_epoch == EP_BOTH || g_epoch == EP_FREE_ONLY) violate("routing: libc free was called on the library's behalf while a custom free is installed");
    if (!p) { g_cnt.free_null[DEF]++; return; }
    if (in_arena(p)) { violate("libc free: received a block of the custom allocator"); return; }
    auto it = g_ledger.find((uintptr_t)p);
    if (it == g_ledger.end()) { violate("libc free: pointer was never returned by malloc/realloc to the library (borrowed or foreign memory released)"); return; }
    if (!it->second.live) { violate("libc free: block #" + std::to_string(it->second.serial) + " released twice"); return; }
    it->second.live = false;
    g_live--; g_live_bytes -= it->second.size;
    uint64_t serial = it->second.serial; int step = it->second.step; size_t size = it->second.size;
    g_ledger.erase(it);  // libc may hand the same address out again
    (void)serial; (void)step; (void)size;
    free(p);
}
extern "C" void *sim_realloc(void *p, size_t n) {
    if (g_yield) g_yield(104);
    g_cnt.reallocs++;
    if (g_epoch != EP_DEFAULT) violate("routing: realloc was used although custom hooks are installed");
    if (p && in_arena(p)) { violate("libc realloc: received a block of the custom allocator"); return nullptr; }
    if (!p) {
        if (should_fail()) { g_cnt.fail_on_realloc++; return nullptr; }
        void *q = malloc(n ? n : 1);
        if (!q) abort();
        memset(q, g_fill, n);
        record(q, n, DEF);
        return q;
    }
    auto it = g_ledger.find((uintptr_t)p);
    if (it == g_ledger.end() || !it->second.live) { violate("libc realloc: pointer is not a live block of the library"); return nullptr; }
    if (should_fail()) { g_cnt.fail_on_realloc++; return nullptr; }  // old block stays valid, as in C
    size_t old = it->second.size;
    if (g_ramode == RA_INPLACE && n <= old && n > 0) {
        // shrink in place: the tail becomes inaccessible
        g_cnt.realloc_inplace++;
        POISON((unsigned char *)p + n, old - n);
        // note: ASan unpoisons the whole chunk itself when it is freed
        g_live_bytes -= old - n;
        it->second.size = n;
        return p;
    }
    g_cnt.realloc_moved++;
    void *q = malloc(n ? n : 1);
    if (!q) abort();
    memset(q, g_fill, n);
    memcpy(q, p, old < n ? old : n);
    it->second.live = false;
    g_live--; g_live_bytes -= old;
    g_ledger.erase(it);
    UNPOISON(p, old);
    free(p);
    record(q, n, DEF);
    return q;
}
extern "C" void cjson_verif_yield(int site) {
    if (site >= 0 && site < 64) probe_hits[site]++;
    if (g_yield) g_yield(site);
}
