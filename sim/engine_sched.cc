// Engine sched (C20): N cooperative tasks (ucontext fibers on one OS thread), every switch decided by the
// plan's choice list. Each switch between tasks is announced to ThreadSanitizer WITHOUT synchronisation,
// so the detector treats the tasks as truly concurrent and reports any two conflicting accesses.
#include <sys/mman.h>
#include <ucontext.h>
#include <cstring>
#include "gen.h"
#include "guard.h"
#include "model.h"
#include "run.h"

extern "C" {
void *__tsan_get_current_fiber(void) __attribute__((weak));
void *__tsan_create_fiber(unsigned flags) __attribute__((weak));
void __tsan_destroy_fiber(void *fiber) __attribute__((weak));
void __tsan_switch_to_fiber(void *fiber, unsigned flags) __attribute__((weak));
}
static const unsigned NO_SYNC = 1;  // __tsan_switch_to_fiber_no_sync

static int64_t R(Rng &r) { return (int64_t)(r.next() >> 2); }
Plan gen_plan(const std::string &property, uint64_t seed, int64_t run);

// ------------------------------------------------------------------ plan generation
struct W2 { const char *op; int w; };
Plan gen_sched_plan(const std::string &prop, uint64_t seed, int64_t run) {
    Plan p;
    p.engine = "sched"; p.property = prop; p.seed = seed; p.run = run;
    Rng r(mix64(mix64(seed, hash_str(prop)), (uint64_t)run));
    int ntasks = (int)r.range(2, 4);
    p.knobs["ntasks"] = ntasks;
    p.knobs["hooks"] = r.chance(2, 3) ? 1 : 0;
    p.knobs["fill"] = (int64_t)r.range(1, 255);
    p.knobs["realloc"] = (int64_t)r.below(2);
    p.knobs["profile"] = r.chance(1, 2) ? 3 : 0;
    // per-task op sequences come from the hist generators of several properties (their mixes cover parse, print,
    // edit, compare, duplicate, minify, patch, merge, sort, delete); ops that reconfigure hooks are dropped
    static const char *donors[] = {"C07", "C16", "C17", "C18", "C19", "C06", "C14"};
    for (int t = 0; t < ntasks; t++) {
        Plan d = gen_plan(donors[r.below(7)], mix64(seed, 0x5C4ED + (uint64_t)t), run * 8 + t);
        size_t maxsteps = (size_t)r.range(6, 28), n = 0;
        Step pre; pre.op = "parse"; pre.task = t; pre.a = {R(r), R(r), R(r), R(r)};
        p.steps.push_back(pre);
        for (auto &s : d.steps) {
            if (s.op == "hooks" || s.op == "roundtrip" || s.op == "strictprint" || s.op == "capscan" || s.op == "refuse" || s.op == "dupcheck" || s.op == "build_deep" || s.op == "dup_deep" || s.op == "dup_cyclic") continue;
            if (n++ >= maxsteps) break;
            Step c = s; c.task = t;
            p.steps.push_back(c);
            if (r.chance(1, 6)) { Step x; x.task = t; static const char *extra[] = {"compare", "minify", "print", "ptr_find", "dup", "sort", "print", "parse_bad", "parse_bad", "utils_ci"}; x.op = extra[r.below(10)]; x.a = {R(r), R(r), R(r), R(r), R(r)}; p.steps.push_back(x); }
        }
    }
    // schedule: at each yield one entry is consumed: -1 keep running, k >= 0 switch to runnable[k mod #runnable]
    size_t len = (size_t)r.range(200, 6000);
    bool pct = r.chance(1, 3);
    unsigned swp = (unsigned)r.range(1, 20);  // switch probability swp/20
    size_t changes = (size_t)r.range(1, 12);
    for (size_t i = 0; i < len; i++) {
        bool sw = pct ? (r.below(len) < changes) : r.chance(swp, 20);
        p.sched.push_back(sw ? (int)r.below(16) : -1);
    }
    return p;
}

// ------------------------------------------------------------------ fibers and scheduler
namespace {
enum TState { T_READY, T_DONE, T_JOINED };
struct Task {
    int id = 0;
    ucontext_t ctx;
    void *stack = nullptr;
    size_t stack_size = 0;
    void *tsan = nullptr;
    TState state = T_READY;
    std::vector<const Step *> steps;
    EventLog log;
    RunStats stats;   // per task: the harness' own bookkeeping must not be shared between fibers (libc interceptors see it)
    Outcome outcome;
    World *world = nullptr;
};
struct Sched {
    std::vector<Task *> tasks;
    ucontext_t main_ctx;
    void *main_tsan = nullptr;
    int current = -1;  // index of the running task, -1: main
    const std::vector<int> *choices = nullptr;
    size_t pos = 0;
    uint64_t yields = 0, switches = 0;
    uint64_t trace_hash = 0x51ED;
    const Plan *plan = nullptr;
    RunStats *stats = nullptr;
    Progress *prog = nullptr;
    WorldCfg cfg;
    int profile = 0;
};
Sched *g_s = nullptr;

void switch_to(int target, unsigned flags) {
    Sched &s = *g_s;
    int from = s.current;
    ucontext_t *fc = from < 0 ? &s.main_ctx : &s.tasks[(size_t)from]->ctx;
    ucontext_t *tc = target < 0 ? &s.main_ctx : &s.tasks[(size_t)target]->ctx;
    void *tf = target < 0 ? s.main_tsan : s.tasks[(size_t)target]->tsan;
    s.current = target;
    guard_set_task(target < 0 ? 0 : target);
    if (__tsan_switch_to_fiber && tf) __tsan_switch_to_fiber(tf, flags);
    swapcontext(fc, tc);
}
void on_yield(int site) {
    Sched &s = *g_s;
    if (s.current < 0) return;  // main (stage outside the tasks)
    s.yields++;
    int choice = -1;
    if (s.pos < s.choices->size()) choice = (*s.choices)[s.pos++];
    if (choice < 0) return;
    std::vector<int> runnable;
    for (auto t : s.tasks) if (t->state == T_READY) runnable.push_back(t->id);
    if (runnable.size() < 2) return;
    int target = runnable[(size_t)choice % runnable.size()];
    if (target == s.current) return;
    s.switches++;
    s.trace_hash = mix64(s.trace_hash, (uint64_t)s.current * 1000003u + (uint64_t)site * 31u + (uint64_t)target);
    switch_to(target, NO_SYNC);
}
void task_main(int id) {
    Sched &s = *g_s;
    Task &t = *s.tasks[(size_t)id];
    {
        WorldCfg cfg = s.cfg;
        cfg.task = id;
        World w(cfg, t.log, t.stats);
        w.profile = s.profile;
        t.world = &w;
        try {
            for (size_t i = 0; i < t.steps.size(); i++) w.exec(*t.steps[i], (int)i);
            w.finish();
        } catch (Stop &st) {
            t.outcome = st.o;
            t.log.add("STOP " + st.o.oracle);
            w.abandon();
        }
        t.world = nullptr;
    }
    t.state = T_DONE;
    // hand the processor to another runnable task without synchronising; the join with main happens at the very end
    for (auto o : s.tasks) if (o->state == T_READY) { switch_to(o->id, NO_SYNC); break; }
    if (t.state == T_DONE) {
        bool any = false;
        for (auto o : s.tasks) if (o->state == T_READY) any = true;
        if (!any) switch_to(-1, 0);
    }
    // resumed once more by main for the final join: a synchronising switch back
    t.state = T_JOINED;
    switch_to(-1, 0);
    abort();  // never resumed again
}
void trampoline(int id) { task_main(id); }

// runs all tasks of the plan under the scheduler (concurrent) or one after the other without any switch (solo)
void run_tasks(Sched &s, bool concurrent) {
    g_s = &s;
    if (__tsan_get_current_fiber) s.main_tsan = __tsan_get_current_fiber();
    for (auto t : s.tasks) {
        t->stack_size = (size_t)1 << 20;
        t->stack = mmap(nullptr, t->stack_size, PROT_READ | PROT_WRITE, MAP_PRIVATE | MAP_ANONYMOUS | MAP_STACK, -1, 0);
        getcontext(&t->ctx);
        t->ctx.uc_stack.ss_sp = t->stack;
        t->ctx.uc_stack.ss_size = t->stack_size;
        t->ctx.uc_link = nullptr;
        makecontext(&t->ctx, (void (*)())trampoline, 1, t->id);
        if (__tsan_create_fiber) t->tsan = __tsan_create_fiber(0);
        t->state = T_READY;
    }
    std::vector<int> none;
    const std::vector<int> *saved = s.choices;
    if (!concurrent) s.choices = &none;  // no entry is ever consumed: a task runs to completion, then the next one starts
    asim::set_yield(on_yield);
    s.current = -1;
    switch_to(s.tasks[0]->id, 0);
    // back in main: every task is done; join them one by one (synchronising), so that the next run starts after all of them
    for (auto t : s.tasks) {
        if (t->state == T_DONE) switch_to(t->id, 0);
    }
    asim::set_yield(nullptr);
    s.choices = saved;
    for (auto t : s.tasks) {
        if (__tsan_destroy_fiber && t->tsan) __tsan_destroy_fiber(t->tsan);
        t->tsan = nullptr;
        munmap(t->stack, t->stack_size);
        t->stack = nullptr;
    }
    guard_set_task(0);
    g_s = nullptr;
}
}  // namespace

RunResult run_sched(const Plan &p, EventLog &log, RunStats &stats, Progress *prog) {
    RunResult rr;
    int ntasks = (int)p.knob("ntasks", 2);
    if (ntasks < 1) ntasks = 1;
    if (ntasks > 6) ntasks = 6;
    WorldCfg cfg = cfg_for(p.property);
    pool();  // caller-owned constant strings exist before the tasks start
    cfg.shared_world = true;
    cfg.hookcfg = p.knob("hooks", 0) ? HK_BOTH : HK_DEFAULT;
    std::vector<uint64_t> solo_hash;
    std::vector<std::vector<std::string>> solo_lines;
    uint64_t switches = 0, yields = 0, trace = 0;
    for (int phase = 0; phase < 2; phase++) {
        bool concurrent = phase == 1;
        asim::reset_run((unsigned char)p.knob("fill", 0xA5), p.knob("realloc", 0) ? asim::RA_INPLACE : asim::RA_MOVE);
    borrowed::reset_run();
        // hooks are installed before the tasks start (the documented condition)
        cJSON_Hooks h;
        if (cfg.hookcfg == HK_BOTH) { h.malloc_fn = asim::cust_malloc; h.free_fn = asim::cust_free; cJSON_InitHooks(&h); asim::set_epoch(asim::EP_BOTH); }
        else { cJSON_InitHooks(nullptr); asim::set_epoch(asim::EP_DEFAULT); }
        Sched s;
        s.plan = &p; s.stats = &stats; s.prog = prog; s.cfg = cfg; s.profile = (int)p.knob("profile", 0);
        s.choices = &p.sched;
        std::vector<Task> tasks((size_t)ntasks);
        for (int t = 0; t < ntasks; t++) { tasks[(size_t)t].id = t; tasks[(size_t)t].log.keep_text = true; s.tasks.push_back(&tasks[(size_t)t]); }
        for (auto &st : p.steps) if (st.task >= 0 && st.task < ntasks) tasks[(size_t)st.task].steps.push_back(&st);
        // a crash while the tasks run alone is some other property's failure (it would happen without any concurrency);
        // ThreadSanitizer reports are judged in both phases (the driver looks at the report, not at this flag)
        if (prog) { prog->step = phase; prog->judged = concurrent ? 1 : 0; }
        if (!concurrent) {
            // solo: each task alone, one after the other, same allocator configuration
            run_tasks(s, false);
            for (auto &t : tasks) { solo_hash.push_back(t.log.hash); solo_lines.push_back(t.log.lines); }
        } else {
            run_tasks(s, true);
            switches = s.switches; yields = s.yields; trace = s.trace_hash;
            for (int t = 0; t < ntasks; t++) {
                Task &tk = tasks[(size_t)t];
                log.add("task " + std::to_string(t) + " trace " + std::to_string(tk.log.hash) + " events " + std::to_string(tk.log.count));
                if (tk.log.hash != solo_hash[(size_t)t] && rr.outcome.kind == Outcome::OK) {
                    size_t k = 0;
                    const auto &a = solo_lines[(size_t)t], &b = tk.log.lines;
                    while (k < a.size() && k < b.size() && a[k] == b[k]) k++;
                    rr.outcome.kind = Outcome::VIOLATION;
                    rr.outcome.oracle = p.property + "/solo-equivalence";
                    rr.outcome.step = (int)k;
                    rr.outcome.msg = "task " + std::to_string(t) + " observes different results than when it runs alone; first difference at event " + std::to_string(k) + ": alone '" + (k < a.size() ? a[k] : std::string("<end>")) + "' vs concurrent '" + (k < b.size() ? b[k] : std::string("<end>")) + "'";
                }
            }
        }
        for (auto &t : tasks) {
            stats.steps += t.stats.steps; stats.noops += t.stats.noops; stats.judged_steps += t.stats.judged_steps;
            for (auto &kv : t.stats.op_counts) stats.op_counts[kv.first] += kv.second;
            for (auto &kv : t.stats.probes) stats.probes[kv.first] += kv.second;
            for (auto &kv : t.stats.fault_counts) stats.fault_counts[kv.first] += kv.second;
        }
        cJSON_InitHooks(nullptr);
        asim::set_epoch(asim::EP_DEFAULT);
    }
    stats.fault_counts["sched_switch"] += switches;
    stats.fault_counts["yield_points_reached"] += yields;
    stats.fault_counts[cfg.hookcfg == HK_BOTH ? "cfg_custom_hooks" : "cfg_default_allocator"]++;
    if (switches >= 2) { stats.nontrivial++; stats.state_hashes.push_back(trace); }
    log.add("sched switches " + std::to_string(switches) + " yields " + std::to_string(yields));
    rr.evaluations = 1;
    return rr;
}
