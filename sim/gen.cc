// Plan generators: seeded, library-blind. Arguments are free integers that the
// executor interprets modulo what is live, so generators need no dry-run model.
#include "gen.h"
#include <cstdlib>
#include <cstring>
#include "model.h"

const char *engine_of(const std::string &p) {
    if (p == "C01" || p == "C03" || p == "C10") return "store";
    if (p == "C08") return "afail";
    if (p == "C09") return "cap";
    if (p == "C20") return "sched";
    return "hist";
}
// thorough tier: a third of the runs use histories up to three times as long (the plan text stays self-contained)
static bool g_thorough = false;
static int len_range(Rng &r, int lo, int hi) {
    if (g_thorough && r.chance(1, 3)) return (int)r.range(hi, hi * 3);
    return (int)r.range(lo, hi);
}
static int64_t d2bits(double d) { int64_t b; memcpy(&b, &d, 8); return b; }
static int64_t R(Rng &r) { return (int64_t)(r.next() >> 2); }
static std::string longkey(Rng &r, bool pointer_chars) { return gen_longkey(r, pointer_chars); }
static std::string hkey(Rng &r) {
    static const char *ks[] = {"a", "b", "A", "B", "ab", "aB", "", "k1", "name", "Name", "ck", "CK", "c", "z"};
    if (r.chance(1, 16)) return longkey(r, false);
    if (r.chance(1, 10)) return gen_string(r, false, false, 5);
    if (r.chance(1, 6)) {  // every letter, in either case: case folding must work for the whole alphabet
        std::string k;
        int n = (int)r.range(1, 3);
        for (int i = 0; i < n; i++) k.push_back((char)((r.chance(1, 2) ? 'a' : 'A') + (r.chance(1, 3) ? 25 - (int)r.below(3) : (int)r.below(26))));
        return k;
    }
    std::string k = ks[r.below(14)];
    if (r.chance(1, 5)) for (auto &c : k) if (r.chance(1, 2)) { if (c >= 'a' && c <= 'z') c = (char)(c - 32); else if (c >= 'A' && c <= 'Z') c = (char)(c + 32); }
    return k;
}
static bool g_casekeys = false;
static std::string ukey(Rng &r) {  // keys for Utils documents
    if (g_casekeys) { if (r.chance(1, 14)) return longkey(r, false); static const char *cs[] = {"a", "A", "b", "B", "c", "C", "d", "aa", "aA", "Ab"}; return cs[r.below(10)]; }
    static const char *ks[] = {"a", "b", "A", "", "/", "~", "a/b", "m~n", "0", "1", "-", "x", "foo", "B", "c", "d", "new"};
    if (r.chance(1, 14)) return longkey(r, true);
    return ks[r.below(17)];
}
static Step mk(const std::string &op, std::initializer_list<int64_t> a = {}, std::initializer_list<std::string> s = {}) {
    Step st; st.op = op; st.a.assign(a.begin(), a.end()); st.s.assign(s.begin(), s.end()); return st;
}
struct W { const char *op; int w; };

// one step of the named op with random free arguments
static Step make_step(const std::string &op, Rng &r, bool utils_keys = false) {
    auto key = [&]() { return utils_keys ? ukey(r) : hkey(r); };
    if (op == "new_number") return mk(op, {d2bits(gen_number(r, true, false))});
    if (op == "new_string" || op == "new_raw") return mk(op, {}, {op == "new_raw" ? std::string(r.chance(1, 2) ? "[1, 2]" : "{\"raw\":true}") : gen_string(r, false, false)});
    if (op == "new_bool" || op == "new_strref") return mk(op, {R(r)});
    if (op == "new_arrref" || op == "new_objref") return mk(op, {R(r), R(r)});
    if (op.compare(0, 5, "bulk_") == 0) return mk(op, {(int64_t)r.below(14), R(r)});
    if (op == "add_arr") return mk(op, {R(r), R(r), R(r)});
    if (op == "add_obj") return mk(op, {R(r), R(r), R(r)}, {key()});
    if (op == "add_obj_cs") return mk(op, {R(r), R(r), R(r), R(r)});
    if (op == "add_obj_alias") return mk(op, {R(r), R(r), R(r)});
    if (op == "add_ref_arr") return mk(op, {R(r), R(r), R(r), R(r)});
    if (op == "add_ref_obj") return mk(op, {R(r), R(r), R(r), R(r)}, {key()});
    if (op == "rekey_referenced") return mk(op, {R(r), R(r)}, {key()});
    if (op == "addh") return mk(op, {R(r), R(r), R(r), r.chance(1, 2) ? d2bits(gen_number(r, false, false)) : R(r)}, {key(), gen_string(r, false, false)});
    if (op == "insert") return mk(op, {R(r), R(r), R(r), R(r)});
    if (op == "detach_idx" || op == "delete_idx" || op == "detach_ptr") return mk(op, {R(r), R(r), R(r)});
    if (op == "detach_key" || op == "delete_key") return mk(op, {R(r), R(r), R(r)}, {key()});
    if (op == "replace_idx" || op == "replace_ptr") return mk(op, {R(r), R(r), R(r), R(r)});
    if (op == "replace_key") return mk(op, {R(r), R(r), R(r), R(r)}, {key()});
    if (op == "replace_key_alias") return mk(op, {R(r), R(r), R(r), R(r)});
    if (op == "set_number") return mk(op, {R(r), R(r), d2bits(gen_number(r, true, false))});
    if (op == "nudge_number") return mk(op, {R(r), R(r), R(r)});
    if (op == "set_int") return mk(op, {R(r), R(r), r.chance(1, 4) ? (r.chance(1, 2) ? 2147483647 : -2147483647 - 1) : r.range(-100000, 100000)});
    if (op == "set_valuestring") return mk(op, {R(r), R(r), (int64_t)r.chance(1, 5), R(r)}, {gen_string(r, false, false, r.chance(1, 2) ? 3 : 20)});
    if (op == "set_bool") return mk(op, {R(r), R(r), R(r)});
    if (op == "q_size" || op == "q_foreach" || op == "q_val") return mk(op, {R(r), R(r)});
    if (op == "q_idx") return mk(op, {R(r), R(r), R(r)});
    if (op == "q_key") return mk(op, {R(r), R(r), R(r)}, {key()});
    if (op == "dup" || op == "dupcheck") return mk(op, {R(r), R(r), R(r)});
    if (op == "delete") return mk(op, {R(r)});
    if (op == "rebuild") return mk(op, {R(r)});
    if (op == "refuse") return mk(op, {R(r), R(r), R(r), R(r), R(r)}, {key()});
    if (op == "parse") return mk(op, {R(r), R(r), R(r), R(r)});
    if (op == "print") return mk(op, {R(r), R(r), R(r), R(r), R(r)});
    if (op == "build_deep" || op == "build_wide" || op == "build_big") return mk(op, {R(r), R(r)});
    if (op == "roundtrip" || op == "strictprint" || op == "capscan") return mk(op, {R(r), R(r), R(r)});
    if (op == "sort") return mk(op, {R(r), R(r), R(r)});
    if (op == "twinprint") return mk(op, {R(r), R(r)});
    if (op == "pop") return mk(op, {R(r), R(r), R(r), R(r), R(r), R(r)});
    if (op == "pcorrupt") return mk(op, {R(r), R(r), R(r)});
    if (op == "patch_apply") return mk(op, {R(r)});
    if (op == "patch_gen" || op == "merge_apply" || op == "merge_gen") return mk(op, {R(r), R(r)});
    if (op == "utils_ci") return mk(op, {R(r), R(r), R(r)});
    if (op == "ptr_find") return mk(op, {R(r), R(r)});
    if (op == "compare") return mk(op, {R(r), R(r), R(r), R(r), R(r)});
    if (op == "minify") return mk(op, {R(r), R(r)});
    if (op == "dup_deep" || op == "dup_cyclic" || op == "dup_wide" || op == "dup_refcycle") return mk(op, {R(r), R(r)});
    if (op == "sort_big") return mk(op, {R(r), R(r), R(r)});
    if (op == "parse_bad") return mk(op, {R(r), R(r), R(r), R(r), R(r)});
    if (op == "hooks" || op == "arm") return mk(op, {R(r)});
    if (op == "poke_nan") return mk(op, {R(r), R(r)});
    return mk(op);
}
// swarm: each run enables a random subset of the mix with random multipliers
static std::vector<W> swarm(const std::vector<W> &mix, Rng &r, int keep_num = 3, int keep_den = 4) {
    std::vector<W> out;
    for (auto &m : mix) if (r.chance((unsigned)keep_num, (unsigned)keep_den)) out.push_back({m.op, m.w * (int)(1 + r.below(3))});
    if (out.empty()) out = mix;
    return out;
}
static const char *pickw(const std::vector<W> &mix, Rng &r) {
    int tot = 0;
    for (auto &m : mix) tot += m.w;
    int x = (int)r.below((uint64_t)tot);
    for (auto &m : mix) { if (x < m.w) return m.op; x -= m.w; }
    return mix.back().op;
}
static void add_steps(Plan &p, const std::vector<W> &mix, Rng &r, int n, bool utils_keys = false) {
    for (int i = 0; i < n; i++) {
        std::string op = pickw(mix, r);
        if ((op == "add_obj_alias" || op == "replace_key_alias") && r.chance(2, 3)) {
            // the alias ops need a detached item that still carries a key: make one (member added, then detached)
            p.steps.push_back(make_step(r.chance(1, 3) ? "add_obj_cs" : "addh", r, utils_keys));
            p.steps.push_back(make_step(r.chance(1, 2) ? "detach_ptr" : "detach_idx", r, utils_keys));
        }
        p.steps.push_back(make_step(op, r, utils_keys));
    }
}

static const std::vector<W> CREATE = {{"new_null", 1}, {"new_true", 1}, {"new_false", 1}, {"new_bool", 1}, {"new_number", 3}, {"new_string", 3}, {"new_array", 5}, {"new_object", 5}, {"bulk_int", 1}, {"bulk_float", 1}, {"bulk_double", 1}, {"bulk_string", 1}};
static const std::vector<W> EDIT = {{"add_arr", 8}, {"add_obj", 8}, {"add_obj_cs", 3}, {"addh", 8}, {"insert", 5}, {"detach_idx", 3}, {"detach_key", 3}, {"detach_ptr", 3}, {"delete_idx", 2}, {"delete_key", 2},
                                    {"replace_idx", 3}, {"replace_key", 3}, {"replace_ptr", 3}, {"set_number", 1}, {"set_int", 1}, {"set_valuestring", 2}, {"set_bool", 1}};
static const std::vector<W> QUERY = {{"q_size", 2}, {"q_idx", 2}, {"q_key", 3}, {"q_foreach", 2}, {"q_val", 1}};
static const std::vector<W> REFS = {{"new_strref", 2}, {"new_arrref", 1}, {"new_objref", 1}, {"add_ref_arr", 3}, {"add_ref_obj", 3}, {"add_obj_alias", 3}, {"replace_key_alias", 3}, {"rekey_referenced", 2}};
static std::vector<W> cat(std::initializer_list<std::vector<W>> l) { std::vector<W> o; for (auto &v : l) o.insert(o.end(), v.begin(), v.end()); return o; }

static void common_knobs(Plan &p, Rng &r, int profile) {
    p.knobs["hooks"] = r.chance(1, 2) ? 1 : 0;            // 0 default allocator (with realloc), 1 both custom (no realloc)
    p.knobs["fill"] = (int64_t)r.range(1, 255);
    p.knobs["realloc"] = (int64_t)r.below(2);              // 0 always move, 1 shrink in place
    p.knobs["profile"] = profile;
    if (p.knobs["hooks"] == 1 && r.chance(1, 3)) p.knobs["reuse"] = 1;   // custom allocator that reuses a released block at once (LIFO per size)
}

Plan gen_plan(const std::string &prop, uint64_t seed, int64_t run) {
    Plan p;
    p.engine = engine_of(prop);
    p.property = prop;
    p.seed = seed;
    p.run = run;
    Rng r(mix64(mix64(seed, hash_str(prop)), (uint64_t)run));
    g_casekeys = false;
    { const char *t = getenv("CJSIM_TIER"); g_thorough = t && !strcmp(t, "thorough"); }
    if (prop == "C06") {
        common_knobs(p, r, 0);
        auto mix = swarm(cat({CREATE, EDIT, EDIT, QUERY, {{"refuse", 6}, {"add_ref_arr", 2}, {"add_ref_obj", 2}, {"new_strref", 1}, {"delete", 2}, {"add_obj_alias", 1}}}), r);
        add_steps(p, CREATE, r, 3);
        add_steps(p, mix, r, len_range(r, 5, 60));
    } else if (prop == "C07") {
        common_knobs(p, r, 0);
        auto mix = swarm(cat({CREATE, EDIT, REFS, REFS, {{"parse", 4}, {"print", 4}, {"dup", 5}, {"delete", 5}, {"q_key", 1}, {"refuse", 2}, {"add_obj_cs", 4}}}), r);
        if (r.chance(1, 3)) { p.knobs["faults"] = 1; mix.push_back({"arm", 8}); mix.push_back({"print", 6}); mix.push_back({"parse", 4}); mix.push_back({"dup", 4}); mix.push_back({"set_valuestring", 6}); mix.push_back({"replace_key", 3}); mix.push_back({"new_string", 3}); }
        add_steps(p, CREATE, r, 3);
        add_steps(p, mix, r, len_range(r, 5, 60));
    } else if (prop == "C14") {
        common_knobs(p, r, 3);
        p.knobs["hooks"] = 0;
        int epochs = (int)r.range(2, 4);
        auto mix = swarm(cat({CREATE, EDIT, {{"parse", 6}, {"print", 6}, {"dup", 3}, {"delete", 3}, {"sort", 2}, {"ptr_find", 3}, {"patch_gen", 3}, {"merge_gen", 2}, {"merge_apply", 2}, {"pop", 4}, {"patch_apply", 2}, {"add_ref_arr", 1}, {"add_obj_cs", 1}, {"compare", 1}, {"utils_ci", 3},
                              {"add_ref_obj", 1}, {"new_strref", 1}, {"new_arrref", 1}, {"new_objref", 1}, {"add_obj_alias", 1}, {"replace_key_alias", 1}, {"minify", 1}, {"pcorrupt", 2}}}), r);
        if (r.chance(1, 3)) { p.knobs["faults"] = 1; mix.push_back({"arm", 10}); mix.push_back({"print", 8}); mix.push_back({"parse", 4}); mix.push_back({"set_valuestring", 6}); mix.push_back({"new_string", 3}); }
        for (int e = 0; e < epochs; e++) {
            p.steps.push_back(make_step("hooks", r));
            add_steps(p, {{"parse", 3}, {"new_object", 1}, {"new_array", 1}}, r, 2, true);
            add_steps(p, mix, r, len_range(r, 4, 25), true);
        }
    } else if (prop == "C04" || prop == "C05" || prop == "C09") {
        int profile = prop == "C04" ? 1 : (prop == "C05" ? 2 : (int)r.below(3));
        common_knobs(p, r, profile);
        const char *judged = prop == "C04" ? "roundtrip" : (prop == "C05" ? "strictprint" : "capscan");
        auto stage = swarm(cat({CREATE, EDIT, {{"parse", 10}, {"dup", 2}, {"new_number", 6}, {"new_string", 6}, {"addh", 6}, {"bulk_double", 2}, {"set_number", 3}, {"set_valuestring", 2}}}), r);
        if (prop == "C05") stage.push_back({"poke_nan", 2});
        if (r.chance(1, prop == "C09" ? 40 : 12)) p.steps.push_back(make_step("build_deep", r));
        if (prop != "C09" && r.chance(1, 15)) p.steps.push_back(make_step("build_wide", r));
        if (prop != "C09" && r.chance(1, 150)) p.steps.push_back(make_step("build_big", r));
        int rounds = (int)r.range(1, 4);
        for (int k = 0; k < rounds; k++) {
            add_steps(p, stage, r, len_range(r, 2, 14));
            int j = (int)r.range(1, 3);
            for (int i = 0; i < j; i++) p.steps.push_back(make_step(judged, r));
        }
    } else if (prop == "C11") {
        common_knobs(p, r, 0);
        auto stage = swarm(cat({CREATE, EDIT, REFS, {{"parse", 5}, {"add_obj_cs", 4}}}), r);
        auto after = swarm(cat({EDIT, {{"delete", 4}, {"dupcheck", 3}, {"dup", 2}, {"q_val", 1}, {"print", 2}}}), r);
        add_steps(p, CREATE, r, 2);
        add_steps(p, stage, r, len_range(r, 3, 20));
        p.steps.push_back(make_step("dupcheck", r));
        if (r.chance(1, 2)) p.steps.push_back(make_step("dupcheck", r));
        // refused duplicates (over-deep, cyclic) in the middle of the history: later duplicates must be unaffected
        if (r.chance(1, 10)) p.steps.push_back(make_step("dup_deep", r));
        if (r.chance(1, 5)) p.steps.push_back(make_step("dup_cyclic", r));
        if (r.chance(1, 8)) p.steps.push_back(make_step("dup_refcycle", r));
        if (r.chance(1, 25)) p.steps.push_back(make_step("dup_wide", r));
        add_steps(p, after, r, len_range(r, 5, 30));
        if (r.chance(1, 12)) p.steps.push_back(make_step("dup_deep", r));
        if (r.chance(1, 8)) { p.steps.push_back(make_step("dup_cyclic", r)); p.steps.push_back(make_step("dupcheck", r)); }
    } else if (prop == "C16") {
        common_knobs(p, r, 3);
        int rounds = (int)r.range(1, 3);
        add_steps(p, {{"parse", 1}}, r, len_range(r, 1, 2));
        if (r.chance(1, 6)) {
            // a document that holds reference nodes (items of another tree added by reference): it denotes a value like any
            // other; only test operations are generated for it. Half of these runs make their documents wide.
            if (r.chance(1, 2)) p.knobs["wide"] = 1;
            p.steps.push_back(make_step("parse", r));
            int nrefs = (int)r.range(1, 3);
            for (int i = 0; i < nrefs; i++) p.steps.push_back(make_step(r.chance(1, 2) ? "add_ref_obj" : "add_ref_arr", r, true));
        }
        for (int k = 0; k < rounds; k++) {
            int n = (int)r.range(1, 8);
            int64_t doc = R(r);
            bool corrupt = r.chance(1, 5);
            for (int i = 0; i < n; i++) { Step s = make_step("pop", r); s.a[0] = doc; p.steps.push_back(s); }
            if (corrupt) { int c = (int)r.range(1, 2); for (int i = 0; i < c; i++) p.steps.push_back(make_step("pcorrupt", r)); }
            p.steps.push_back(make_step("patch_apply", r));
            add_steps(p, cat({EDIT, QUERY, {{"print", 2}}}), r, len_range(r, 0, 4), true);
        }
    } else if (prop == "C17") {
        common_knobs(p, r, r.chance(1, 3) ? 6 : 3);
        g_casekeys = p.knobs["profile"] == 6;
        p.steps.push_back(make_step("parse", r));
        if (r.chance(1, 3)) p.steps.push_back(make_step("parse", r));
        else if (r.chance(1, 4)) {   // the same value, assembled through the constructors: equal documents of different provenance
            Step d = make_step("rebuild", r); d.a[0] = 0; p.steps.push_back(d);
            if (r.chance(1, 2)) add_steps(p, swarm(cat({EDIT, {{"addh", 6}, {"delete_key", 4}, {"set_number", 2}, {"nudge_number", 6}}}), r), r, len_range(r, 1, 3), true);
        }
        else { Step d = make_step("dup", r); d.a[0] = 0; d.a[1] = 0; d.a[2] = 1; p.steps.push_back(d); add_steps(p, swarm(cat({EDIT, {{"addh", 6}, {"delete_key", 4}, {"delete_idx", 3}, {"set_number", 2}, {"nudge_number", 6}, {"set_valuestring", 2}}}), r), r, len_range(r, 1, 6), true); }
        p.steps.push_back(make_step("patch_gen", r));
        add_steps(p, cat({EDIT, QUERY, {{"print", 2}, {"addh", 6}, {"add_obj", 4}}}), r, len_range(r, 3, 15), true);
        if (r.chance(1, 2)) p.steps.push_back(make_step("patch_gen", r));
    } else if (prop == "C18") {
        int prof = (int)r.below(4);
        common_knobs(p, r, prof == 0 ? 3 : (prof == 1 ? 4 : 6));
        g_casekeys = prof >= 2;
        auto mixm = std::vector<W>{{"merge_apply", 3}, {"merge_gen", 3}, {"parse", 3}, {"dup", 1}, {"addh", 2}, {"delete_key", 1}, {"set_number", 1}};
        add_steps(p, {{"parse", 1}}, r, 2);
        if (r.chance(1, 5)) { Step d = make_step("rebuild", r); p.steps.push_back(d); if (r.chance(1, 2)) add_steps(p, cat({EDIT, {{"addh", 6}, {"delete_key", 4}, {"nudge_number", 8}}}), r, len_range(r, 1, 3), true); }
        else if (r.chance(1, 2)) { Step d = make_step("dup", r); d.a[2] = 1; p.steps.push_back(d); add_steps(p, cat({EDIT, {{"addh", 6}, {"delete_key", 4}, {"nudge_number", 8}}}), r, len_range(r, 1, 5), true); }
        add_steps(p, mixm, r, len_range(r, 2, 8), true);
        add_steps(p, cat({EDIT, QUERY, {{"print", 2}, {"addh", 6}, {"merge_gen", 3}, {"merge_apply", 2}}}), r, len_range(r, 3, 12), true);
    } else if (prop == "C19") {
        auto follow = swarm(cat({EDIT, QUERY, {{"addh", 8}, {"add_obj", 4}, {"twinprint", 4}, {"sort", 3}, {"new_number", 2}, {"new_string", 2}, {"new_object", 1}, {"delete", 1}, {"dup", 1}}}), r);
        if (r.chance(1, 3)) {
            // the other utilities that sort internally: patch 'test', patch generation, merge-patch generation
            common_knobs(p, r, r.chance(1, 2) ? 3 : 6);
            g_casekeys = p.knobs["profile"] == 6;
            p.steps.push_back(make_step("parse", r));
            int rounds = (int)r.range(1, 3);
            for (int k = 0; k < rounds; k++) {
                switch (r.below(3)) {
                    case 0: {  // a test operation touches (and sorts) the object, later operations and edits follow
                        int n = (int)r.range(1, 3);
                        int64_t doc = R(r);
                        if (k == 0 && r.chance(1, 4)) {
                            // the tested document sees (often wide) containers of a second tree through reference nodes: a test
                            // that relinked what it compares would leave the owner of those members with a stale child pointer
                            if (r.chance(2, 3)) p.knobs["wide"] = 1;
                            p.steps.push_back(make_step("parse", r));
                            int nrefs = (int)r.range(1, 3);
                            for (int i = 0; i < nrefs; i++) p.steps.push_back(make_step(r.chance(1, 2) ? "add_ref_obj" : "add_ref_arr", r, true));
                        }
                        for (int i = 0; i < n; i++) { Step s = make_step("pop", r); s.a[0] = doc; s.a[1] = (i == 0 || r.chance(1, 2)) ? 3 : (int64_t)r.below(6); s.a[5] = (int64_t)(r.next() >> 2) | 1; p.steps.push_back(s); }
                        p.steps.push_back(make_step("patch_apply", r));
                        break;
                    }
                    case 1: { Step d = make_step("dup", r); d.a[1] = 0; d.a[2] = 1; p.steps.push_back(d); add_steps(p, cat({EDIT, {{"addh", 6}, {"delete_key", 3}}}), r, len_range(r, 0, 3), true); p.steps.push_back(make_step("patch_gen", r)); break; }
                    default: { Step d = make_step("dup", r); d.a[1] = 0; d.a[2] = 1; p.steps.push_back(d); add_steps(p, cat({EDIT, {{"addh", 6}, {"delete_key", 3}}}), r, len_range(r, 0, 3), true); p.steps.push_back(make_step("merge_gen", r)); break; }
                }
                add_steps(p, follow, r, len_range(r, 2, 12), true);
            }
        } else {
            common_knobs(p, r, 0);
            p.steps.push_back(make_step("new_object", r));
            int members = r.chance(1, 8) ? (int)r.range(10, 40) : (int)r.range(0, 9);
            for (int i = 0; i < members; i++) {
                Step s = make_step(r.chance(1, 4) ? "add_obj" : "addh", r);
                if (s.op == "add_obj") { p.steps.push_back(make_step(pickw(CREATE, r), r)); }
                s.a[0] = 0;
                p.steps.push_back(s);
            }
            int rounds = (int)r.range(1, 3);
            for (int k = 0; k < rounds; k++) {
                p.steps.push_back(make_step("sort", r));
                add_steps(p, follow, r, len_range(r, 2, 15));
            }
            if (r.chance(1, 400)) p.steps.push_back(make_step("sort_big", r));
        }
    }
    return p;
}
