// Core construction / edit / query ops with their model semantics (DESIGN.md appendix A).
#include <cmath>
#include <cstring>
#include "world.h"

static double bits2d(int64_t b) { double d; memcpy(&d, &b, 8); return d; }
static std::string fold(const std::string &s) {
    std::string o = s;
    for (auto &c : o) if (c >= 'A' && c <= 'Z') c = (char)(c - 'A' + 'a');
    return o;
}
static std::string B(bool b) { return b ? "true" : "false"; }
static std::string I(int64_t v) { return std::to_string(v); }
static std::string Q(const std::string &s) { return "'" + show_bytes(s, 60) + "'"; }

static bool editable_container(World &w, MVal *m) { return m->is_container() && m->refkind == R_NONE && w.mutable_node(m); }
static int64_t idx_arg(int64_t arg, size_t size) { return (int64_t)((uint64_t)arg % (uint64_t)(size + 3)) - 1; }  // -1 .. size+1
static MVal *find_key(MVal *c, const std::string &k, bool cs) {
    for (MVal *m : c->kids) {
        if (m->keystate != K_KNOWN) continue;
        if (cs ? (m->key == k) : (fold(m->key) == fold(k))) return m;
    }
    return nullptr;
}
static bool all_keys_known(MVal *c) { for (MVal *m : c->kids) if (m->keystate != K_KNOWN) return false; return true; }

// place a freshly created root into a free slot
static void put_root(World &w, const Step &st, int slot, cJSON *c, MVal *m, const std::string &what) {
    if (w.tolerate_failure(c == nullptr)) { mv_free(m); return; }
    if (!c) { mv_free(m); w.mismatch("create", what + " returned NULL"); return; }
    m->c = c;
    w.slots[slot] = m;
    w.log.add(st.op + " -> s" + I(slot) + " " + mv_dump(m, 60));
}
#define NEED_FREE_SLOT() int slot = w.free_slot(); if (slot < 0) { w.noop(st, "no free slot"); return; }

DEFOP(new_null) { NEED_FREE_SLOT(); put_root(w, st, slot, cJSON_CreateNull(), mv_new(T_NULL), "CreateNull"); }
DEFOP(new_true) { NEED_FREE_SLOT(); put_root(w, st, slot, cJSON_CreateTrue(), mv_new(T_TRUE), "CreateTrue"); }
DEFOP(new_false) { NEED_FREE_SLOT(); put_root(w, st, slot, cJSON_CreateFalse(), mv_new(T_FALSE), "CreateFalse"); }
DEFOP(new_bool) { NEED_FREE_SLOT(); bool b = st.A(0) & 1; put_root(w, st, slot, cJSON_CreateBool(b), mv_new(b ? T_TRUE : T_FALSE), "CreateBool"); }
DEFOP(new_array) { NEED_FREE_SLOT(); put_root(w, st, slot, cJSON_CreateArray(), mv_new(T_ARRAY), "CreateArray"); }
DEFOP(new_object) { NEED_FREE_SLOT(); put_root(w, st, slot, cJSON_CreateObject(), mv_new(T_OBJECT), "CreateObject"); }
DEFOP(new_number) {
    NEED_FREE_SLOT();
    double d = bits2d(st.A(0));
    if (d != d) d = 0;  // NaN is never passed through the constructors (DESIGN 11)
    put_root(w, st, slot, cJSON_CreateNumber(d), mv_num(d), "CreateNumber");
}
DEFOP(new_string) { NEED_FREE_SLOT(); std::string s = st.S(0).c_str(); put_root(w, st, slot, cJSON_CreateString(s.c_str()), mv_str(s), "CreateString"); }
DEFOP(new_raw) { NEED_FREE_SLOT(); std::string s = st.S(0).c_str(); MVal *m = mv_new(T_RAW); m->str = s; put_root(w, st, slot, cJSON_CreateRaw(s.c_str()), m, "CreateRaw"); }
DEFOP(new_strref) {
    NEED_FREE_SLOT();
    int pi = pool().index(st.A(0));
    MVal *m = mv_new(T_STRING); m->refkind = R_STRPOOL; m->strpool = pi;
    put_root(w, st, slot, cJSON_CreateStringReference(pool().get(pi)), m, "CreateStringReference");
}
static void new_childref(World &w, const Step &st, bool obj) {
    NEED_FREE_SLOT();
    MVal *t = w.pick(st.A(0), st.A(1), [](MVal *) { return true; });
    if (!t) { w.noop(st, "no target"); return; }
    cJSON *c = obj ? cJSON_CreateObjectReference(t->c) : cJSON_CreateArrayReference(t->c);
    if (w.tolerate_failure(c == nullptr)) return;
    if (!c) { w.mismatch("create", "Create*Reference returned NULL"); return; }
    MVal *m = mv_new(obj ? T_OBJECT : T_ARRAY); m->refkind = R_CHILD; m->target = t; m->c = c;
    mv_root(t)->frozen++;
    w.slots[slot] = m;
    w.stats.probes["reference_node_created"]++;
    w.log.add(st.op + " -> s" + I(slot) + " " + mv_dump(m, 60));
}
DEFOP(new_arrref) { new_childref(w, st, false); }
DEFOP(new_objref) { new_childref(w, st, true); }

DEFOP(bulk_int) {
    NEED_FREE_SLOT();
    int n = (int)(st.A(0) % 14); Rng r((uint64_t)st.A(1));
    std::vector<int> v; for (int i = 0; i < n; i++) v.push_back(r.chance(1, 4) ? (r.chance(1, 2) ? 2147483647 : (-2147483647 - 1)) : (int)r.range(-1000, 1000));
    int dummy = 0;
    MVal *m = mv_new(T_ARRAY); for (int x : v) { MVal *k = mv_num((double)x); mv_add_kid(m, k, m->kids.size()); }
    put_root(w, st, slot, cJSON_CreateIntArray(n ? v.data() : &dummy, n), m, "CreateIntArray");
}
DEFOP(bulk_float) {
    NEED_FREE_SLOT();
    int n = (int)(st.A(0) % 14); Rng r((uint64_t)st.A(1));
    std::vector<float> v; for (int i = 0; i < n; i++) v.push_back((float)(r.range(-100000, 100000) / 16.0) * (r.chance(1, 5) ? 1e20f : 1.0f));
    float dummy = 0;
    MVal *m = mv_new(T_ARRAY); for (float x : v) { MVal *k = mv_num((double)x); mv_add_kid(m, k, m->kids.size()); }
    put_root(w, st, slot, cJSON_CreateFloatArray(n ? v.data() : &dummy, n), m, "CreateFloatArray");
}
DEFOP(bulk_double) {
    NEED_FREE_SLOT();
    int n = (int)(st.A(0) % 14); Rng r((uint64_t)st.A(1));
    std::vector<double> v; for (int i = 0; i < n; i++) v.push_back(gen_number(r, false, false));
    double dummy = 0;
    MVal *m = mv_new(T_ARRAY); for (double x : v) { MVal *k = mv_num(x); mv_add_kid(m, k, m->kids.size()); }
    put_root(w, st, slot, cJSON_CreateDoubleArray(n ? v.data() : &dummy, n), m, "CreateDoubleArray");
}
DEFOP(bulk_string) {
    NEED_FREE_SLOT();
    int n = (int)(st.A(0) % 14); Rng r((uint64_t)st.A(1));
    std::vector<std::string> v; for (int i = 0; i < n; i++) v.push_back(gen_string(r, false, false, 8));
    // a caller's table may name the same text more than once (the same pointer): every element still owns its own copy
    std::vector<const char *> p;
    std::vector<size_t> src;
    for (size_t i = 0; i < v.size(); i++) { size_t from = (i > 0 && r.chance(1, 4)) ? src[i - 1] : i; src.push_back(from); p.push_back(v[from].c_str()); }
    const char *dummy = "";
    MVal *m = mv_new(T_ARRAY); for (size_t i = 0; i < v.size(); i++) { MVal *k = mv_str(v[src[i]]); mv_add_kid(m, k, m->kids.size()); }
    { bool rep = false; for (size_t i = 1; i < src.size(); i++) if (src[i] == src[i - 1]) rep = true; if (rep) w.stats.probes["string_array_names_a_text_twice"]++; }
    put_root(w, st, slot, cJSON_CreateStringArray(n ? p.data() : &dummy, n), m, "CreateStringArray");
}

// ------------------------------------------------------------------ add
static bool take_item(World &w, const Step &st, int64_t arg, MVal *c, MVal *&x, int &xs, bool need_key = false) {
    // the (arg mod #candidates)-th detached root that may legally be moved: not referenced, not an ancestor of the container
    int cand[NSLOTS], n = 0;
    MVal *croot = c ? mv_root(c) : nullptr;
    for (int i = 0; i < NSLOTS; i++) {
        MVal *r = w.slots[i];
        if (!r || !w.movable_root(r) || r == croot) continue;
        if (need_key && (r->keystate != K_KNOWN || !r->c->string)) continue;
        cand[n++] = i;
    }
    if (!n) { w.noop(st, need_key ? "no movable item with a key" : "no movable item"); return false; }
    xs = cand[(uint64_t)arg % (uint64_t)n];
    x = w.slots[xs];
    w.touch(xs);
    return true;
}
DEFOP(add_arr) {
    MVal *x; int xs;
    MVal *c = w.pick(st.A(0), st.A(1), [&](MVal *m) { return editable_container(w, m); });
    if (!c) { w.noop(st, "no container"); return; }
    if (!take_item(w, st, st.A(2), c, x, xs)) return;
    if (c->type == T_OBJECT && x->keystate != K_KNOWN) { w.noop(st, "keyless item into object"); return; }
    cJSON_bool r = cJSON_AddItemToArray(c->c, x->c);
    w.expect(r, "return", "AddItemToArray returned false");
    w.slots[xs] = nullptr;
    mv_add_kid(c, x, c->kids.size());
    if (c->kids.size() >= 2) w.mark_nontrivial();
    w.log.add("add_arr s" + I(xs) + " -> size " + I((int64_t)c->kids.size()));
}
static void add_obj_common(World &w, const Step &st, int mode) {  // 0 copy key, 1 constant key, 2 key aliases the item's own key
    MVal *x; int xs;
    MVal *c = w.pick(st.A(0), st.A(1), [&](MVal *m) { return editable_container(w, m) && m->type == T_OBJECT; });
    if (!c) { w.noop(st, "no object"); return; }
    if (!take_item(w, st, st.A(2), c, x, xs, mode == 2)) return;
    std::string key;
    const char *kp;
    int pi = -1;
    if (mode == 1) { pi = pool().index(st.A(3)); kp = pool().get(pi); key = pool().value(pi); }
    else if (mode == 2) {
        if (x->keystate != K_KNOWN || !x->c->string) { w.noop(st, "item has no key to alias"); return; }
        kp = x->c->string; key = x->key;
        w.stats.probes["alias_key_add"]++;
    } else { key = st.S(0).c_str(); kp = key.c_str(); }
    cJSON_bool r = (mode == 1) ? cJSON_AddItemToObjectCS(c->c, kp, x->c) : cJSON_AddItemToObject(c->c, kp, x->c);
    if (w.tolerate_failure(!r)) return;
    w.expect(r, "return", "AddItemToObject returned false");
    w.slots[xs] = nullptr;
    x->keystate = K_KNOWN; x->key = key; x->constkey = (mode == 1); x->keypool = pi;
    mv_add_kid(c, x, c->kids.size());
    if (mode == 1) w.stats.probes["constant_key"]++;
    if (c->kids.size() >= 2) w.mark_nontrivial();
    w.log.add(st.op + " s" + I(xs) + " key " + Q(key) + " -> size " + I((int64_t)c->kids.size()));
}
DEFOP(add_obj) { add_obj_common(w, st, 0); }
DEFOP(add_obj_cs) { add_obj_common(w, st, 1); }
DEFOP(add_obj_alias) { add_obj_common(w, st, 2); }

static void add_ref_common(World &w, const Step &st, bool obj) {
    MVal *c = w.pick(st.A(0), st.A(1), [&](MVal *m) { return editable_container(w, m) && (obj ? m->type == T_OBJECT : m->type == T_ARRAY); });
    if (!c) { w.noop(st, "no container"); return; }
    MVal *croot = mv_root(c);
    MVal *t = w.pick(st.A(2), st.A(3), [&](MVal *m) { return mv_root(m) != croot; });
    if (!t) { w.noop(st, "no target in another tree"); return; }
    if (((uint64_t)st.A(3) / 13) % 4 == 0) {
        // a quarter of the references point at the widest container of that tree
        std::vector<MVal *> all; mv_collect(mv_root(t), all);
        for (MVal *m : all) if (m->refkind == R_NONE && m->kids.size() > t->kids.size()) t = m;
    }
    std::string key = st.S(0).c_str();
    const char *keyarg = key.c_str();
    if (obj && t->keystate == K_KNOWN && t->c && t->c->string && ((uint64_t)st.A(3) / 7919) % 3 == 0) {
        // the key argument aliases the referenced item's own key: AddItemReferenceToObject(view, item->string, item)
        key = t->key;
        keyarg = t->c->string;
        w.stats.probes["reference_added_under_the_items_own_key"]++;
    }
    cJSON_bool r = obj ? cJSON_AddItemReferenceToObject(c->c, keyarg, t->c) : cJSON_AddItemReferenceToArray(c->c, t->c);
    if (w.tolerate_failure(!r)) return;
    w.expect(r, "return", "AddItemReferenceTo* returned false");
    MVal *m = mv_new(t->type); m->refkind = R_ITEM; m->target = t; m->num = t->num;
    if (obj) { m->keystate = K_KNOWN; m->key = key; }
    mv_root(t)->frozen++;
    mv_add_kid(c, m, c->kids.size());
    w.stats.probes["reference_node_created"]++;
    w.log.add(st.op + " -> ref to " + mv_dump(t, 40));
}
// Re-keying an item that reference nodes point at: DetachItemViaPointer + AddItemToObject under another name. References
// borrow the item's children and value text, not its name or its place, so this is a legal edit of a referenced tree (the
// only one the model admits): nothing a reference borrows is released or relinked. Restrictions that keep that true: the
// item is not its parent's first child (the parent's own child pointer, which a reference to the parent copied, stays),
// and no array/object reference (which borrows a sibling chain, not an item) points into the tree.
DEFOP(rekey_referenced) {
    bool chain_borrowed = false;
    std::vector<MVal *> refs;
    for (int i = 0; i < NSLOTS; i++) if (w.slots[i]) mv_collect(w.slots[i], refs);
    MVal *x = w.pick(st.A(0), st.A(1), [&](MVal *m) {
        MVal *p = m->parent;
        if (!p || p->type != T_OBJECT || p->refkind != R_NONE || m->keystate != K_KNOWN || m->constkey || p->kids.front() == m) return false;
        MVal *root = mv_root(m);
        if (root->frozen == 0) return false;
        for (MVal *q = p; q; q = q->parent) if (q->refkind != R_NONE) return false;
        for (MVal *r : refs) if (r->refkind == R_CHILD && r->target && mv_root(r->target) == root) return false;
        return true;
    });
    (void)chain_borrowed;
    if (!x) { w.noop(st, "no referenced tree with a member that can be renamed"); return; }
    MVal *p = x->parent;
    std::string key = st.S(0).c_str();
    cJSON *d = cJSON_DetachItemViaPointer(p->c, x->c);
    if (d != x->c) { w.mismatch("return", "DetachItemViaPointer did not return the item"); return; }
    cJSON_bool r = cJSON_AddItemToObject(p->c, key.c_str(), x->c);
    if (!r && asim::fail_fired_in_step()) r = cJSON_AddItemToObject(p->c, key.c_str(), x->c);  // the injected failure hit the key copy: the item is still ours, add it again
    if (!r) { w.mismatch("return", "AddItemToObject of a detached member returned false"); return; }
    mv_detach(x);
    x->keystate = K_KNOWN; x->key = key; x->constkey = false; x->keypool = -1;
    mv_add_kid(p, x, p->kids.size());
    w.stats.probes["referenced_item_renamed"]++;
    w.mark_nontrivial();
    w.log.add("rekey_referenced -> " + Q(key));
}
DEFOP(add_ref_arr) { add_ref_common(w, st, false); }
DEFOP(add_ref_obj) { add_ref_common(w, st, true); }

DEFOP(addh) {
    MVal *c = w.pick(st.A(0), st.A(1), [&](MVal *m) { return editable_container(w, m) && m->type == T_OBJECT; });
    if (!c) { w.noop(st, "no object"); return; }
    std::string key = st.S(0).c_str(), sv = st.S(1).c_str();
    int kind = (int)((uint64_t)st.A(2) % 9);
    double d = bits2d(st.A(3)); if (d != d) d = 1;
    cJSON *r = nullptr; MVal *m = nullptr;
    switch (kind) {
        case 0: r = cJSON_AddNullToObject(c->c, key.c_str()); m = mv_new(T_NULL); break;
        case 1: r = cJSON_AddTrueToObject(c->c, key.c_str()); m = mv_new(T_TRUE); break;
        case 2: r = cJSON_AddFalseToObject(c->c, key.c_str()); m = mv_new(T_FALSE); break;
        case 3: r = cJSON_AddBoolToObject(c->c, key.c_str(), (cJSON_bool)(st.A(3) & 1)); m = mv_new((st.A(3) & 1) ? T_TRUE : T_FALSE); break;
        case 4: r = cJSON_AddNumberToObject(c->c, key.c_str(), d); m = mv_num(d); break;
        case 5: r = cJSON_AddStringToObject(c->c, key.c_str(), sv.c_str()); m = mv_str(sv); break;
        case 6: r = cJSON_AddRawToObject(c->c, key.c_str(), sv.c_str()); m = mv_new(T_RAW); m->str = sv; break;
        case 7: r = cJSON_AddObjectToObject(c->c, key.c_str()); m = mv_new(T_OBJECT); break;
        default: r = cJSON_AddArrayToObject(c->c, key.c_str()); m = mv_new(T_ARRAY); break;
    }
    if (w.tolerate_failure(r == nullptr)) { mv_free(m); return; }
    if (!r) { mv_free(m); w.mismatch("return", "Add*ToObject helper returned NULL"); return; }
    m->keystate = K_KNOWN; m->key = key; m->c = r;
    mv_add_kid(c, m, c->kids.size());
    if (c->kids.size() >= 2) w.mark_nontrivial();
    w.log.add("addh kind " + I(kind) + " key " + Q(key) + " -> size " + I((int64_t)c->kids.size()));
}

DEFOP(insert) {
    MVal *x; int xs;
    MVal *c = w.pick(st.A(0), st.A(1), [&](MVal *m) { return editable_container(w, m); });
    if (!c) { w.noop(st, "no container"); return; }
    if (!take_item(w, st, st.A(3), c, x, xs)) return;
    if (c->type == T_OBJECT && x->keystate != K_KNOWN) { w.noop(st, "keyless item into object"); return; }
    int64_t idx = idx_arg(st.A(2), c->kids.size());
    cJSON_bool r = cJSON_InsertItemInArray(c->c, (int)idx, x->c);
    bool pred = idx >= 0;
    w.expect((r != 0) == pred, "return", "InsertItemInArray(index " + I(idx) + ", size " + I((int64_t)c->kids.size()) + ") returned " + B(r) + ", model says " + B(pred));
    if (pred) {
        w.slots[xs] = nullptr;
        mv_add_kid(c, x, (size_t)idx);  // index >= size appends
        if (c->kids.size() >= 2) w.mark_nontrivial();
        if (idx == 0) w.stats.probes["insert_at_0"]++;
    }
    w.log.add("insert idx " + I(idx) + " -> " + B(r) + " size " + I((int64_t)c->kids.size()));
}

// ------------------------------------------------------------------ detach / delete
static void after_detach(World &w, const Step &st, MVal *c, MVal *victim, cJSON *r, bool del, const std::string &what) {
    cJSON *exp = victim ? victim->c : nullptr;
    if (del) {
        // Delete* returns nothing: the structural walk judges the effect
        if (victim) { mv_detach(victim); w.model_delete(victim); }
        w.log.add(what + " -> deleted " + B(victim != nullptr));
        if (victim && c->kids.size() >= 1) w.mark_nontrivial();
        return;
    }
    w.expect(r == exp, "return", what + " returned " + (r ? (r == exp ? "the item" : "another node") : "NULL") + ", model says " + (exp ? "the item" : "NULL"));
    if (!victim) { w.log.add(what + " -> NULL"); return; }
    bool last = c->kids.back() == victim, first = c->kids.front() == victim;
    mv_detach(victim);
    if (last && !first) w.stats.probes["detach_last"]++;
    if (first) w.stats.probes["detach_first"]++;
    int slot = w.free_slot();
    if (slot < 0) {  // nowhere to keep it: release it right away
        w.model_delete(victim);
        cJSON_Delete(r);
        w.log.add(what + " -> item (deleted, no free slot)");
    } else {
        w.slots[slot] = victim;
        w.log.add(what + " -> item to s" + I(slot));
    }
    if (c->kids.size() >= 1) w.mark_nontrivial();
}
static void detach_idx_common(World &w, const Step &st, bool del) {
    MVal *c = w.pick(st.A(0), st.A(1), [&](MVal *m) { return editable_container(w, m); });
    if (!c) { w.noop(st, "no container"); return; }
    int64_t idx = idx_arg(st.A(2), c->kids.size());
    MVal *victim = (idx >= 0 && (size_t)idx < c->kids.size()) ? c->kids[(size_t)idx] : nullptr;
    cJSON *r = nullptr;
    if (del) cJSON_DeleteItemFromArray(c->c, (int)idx); else r = cJSON_DetachItemFromArray(c->c, (int)idx);
    after_detach(w, st, c, victim, r, del, st.op + " idx " + I(idx) + " of " + I((int64_t)c->kids.size() + (victim && del ? 0 : 0)));
}
DEFOP(detach_idx) { detach_idx_common(w, st, false); }
DEFOP(delete_idx) { detach_idx_common(w, st, true); }
static void detach_key_common(World &w, const Step &st, bool del) {
    MVal *c = w.pick(st.A(0), st.A(1), [&](MVal *m) { return editable_container(w, m) && m->type == T_OBJECT && all_keys_known(m); });
    if (!c) { w.noop(st, "no object"); return; }
    bool cs = st.A(2) & 1;
    std::string key = st.S(0).c_str();
    MVal *victim = find_key(c, key, cs);
    cJSON *r = nullptr;
    if (del) { if (cs) cJSON_DeleteItemFromObjectCaseSensitive(c->c, key.c_str()); else cJSON_DeleteItemFromObject(c->c, key.c_str()); }
    else r = cs ? cJSON_DetachItemFromObjectCaseSensitive(c->c, key.c_str()) : cJSON_DetachItemFromObject(c->c, key.c_str());
    if (victim && !cs && victim->key != key) w.stats.probes["case_folded_match"]++;
    after_detach(w, st, c, victim, r, del, st.op + (cs ? " cs " : " ci ") + Q(key));
}
DEFOP(detach_key) { detach_key_common(w, st, false); }
DEFOP(delete_key) { detach_key_common(w, st, true); }
DEFOP(detach_ptr) {
    MVal *c = w.pick(st.A(0), st.A(1), [&](MVal *m) { return editable_container(w, m) && !m->kids.empty(); });
    if (!c) { w.noop(st, "no non-empty container"); return; }
    MVal *victim = c->kids[(uint64_t)st.A(2) % c->kids.size()];
    cJSON *r = cJSON_DetachItemViaPointer(c->c, victim->c);
    after_detach(w, st, c, victim, r, false, "detach_ptr");
}

// ------------------------------------------------------------------ replace
static void do_replaced(World &w, MVal *c, MVal *old, MVal *x, int xs) {
    size_t i = 0;
    for (; i < c->kids.size(); i++) if (c->kids[i] == old) break;
    w.slots[xs] = nullptr;
    x->parent = c;
    c->kids[i] = x;
    old->parent = nullptr;
    w.model_delete(old);
    if (c->kids.size() == 1) w.stats.probes["replace_only_child"]++;
    if (c->kids.size() >= 2) w.mark_nontrivial();
}
DEFOP(replace_idx) {
    MVal *x; int xs;
    MVal *c = w.pick(st.A(0), st.A(1), [&](MVal *m) { return editable_container(w, m); });
    if (!c) { w.noop(st, "no container"); return; }
    if (!take_item(w, st, st.A(3), c, x, xs)) return;
    if (c->type == T_OBJECT && x->keystate != K_KNOWN) { w.noop(st, "keyless item into object"); return; }
    int64_t idx = idx_arg(st.A(2), c->kids.size());
    MVal *old = (idx >= 0 && (size_t)idx < c->kids.size()) ? c->kids[(size_t)idx] : nullptr;
    cJSON_bool r = cJSON_ReplaceItemInArray(c->c, (int)idx, x->c);
    w.expect((r != 0) == (old != nullptr), "return", "ReplaceItemInArray(index " + I(idx) + ", size " + I((int64_t)c->kids.size()) + ") returned " + B(r));
    if (old) do_replaced(w, c, old, x, xs);
    w.log.add("replace_idx " + I(idx) + " -> " + B(r));
}
DEFOP(replace_ptr) {
    MVal *x; int xs;
    MVal *c = w.pick(st.A(0), st.A(1), [&](MVal *m) { return editable_container(w, m) && !m->kids.empty(); });
    if (!c) { w.noop(st, "no non-empty container"); return; }
    if (!take_item(w, st, st.A(3), c, x, xs)) return;
    if (c->type == T_OBJECT && x->keystate != K_KNOWN) { w.noop(st, "keyless item into object"); return; }
    MVal *old = c->kids[(uint64_t)st.A(2) % c->kids.size()];
    cJSON_bool r = cJSON_ReplaceItemViaPointer(c->c, old->c, x->c);
    w.expect(r, "return", "ReplaceItemViaPointer returned false");
    do_replaced(w, c, old, x, xs);
    w.log.add("replace_ptr -> " + B(r));
}
static void replace_key_common(World &w, const Step &st, bool alias) {
    MVal *x; int xs;
    MVal *c = w.pick(st.A(0), st.A(1), [&](MVal *m) { return editable_container(w, m) && m->type == T_OBJECT && all_keys_known(m); });
    if (!c) { w.noop(st, "no object"); return; }
    if (!take_item(w, st, st.A(3), c, x, xs, alias)) return;
    bool cs = st.A(2) & 1;
    std::string key;
    const char *kp;
    if (alias) {
        if (x->keystate != K_KNOWN || !x->c->string) { w.noop(st, "replacement has no key to alias"); return; }
        key = x->key; kp = x->c->string;
        w.stats.probes["alias_key_replace"]++;
    } else { key = st.S(0).c_str(); kp = key.c_str(); }
    MVal *old = find_key(c, key, cs);
    std::string oldkey = old ? old->key : std::string();
    cJSON_bool r = cs ? cJSON_ReplaceItemInObjectCaseSensitive(c->c, kp, x->c) : cJSON_ReplaceItemInObject(c->c, kp, x->c);
    if (w.tolerate_failure(!r)) { x->keystate = K_UNKNOWN; x->constkey = false; return; }
    w.expect((r != 0) == (old != nullptr), "return", "ReplaceItemInObject(" + Q(key) + ") returned " + B(r) + ", model says " + B(old != nullptr));
    if (old) {
        do_replaced(w, c, old, x, xs);
        x->keystate = K_KNOWN; x->constkey = false; x->keypool = -1;
        // the matched member may be spelled differently (case-insensitive variant): either spelling is accepted
        x->key = (x->c->string && oldkey == x->c->string) ? oldkey : key;
    } else {
        x->keystate = K_UNKNOWN; x->constkey = false;  // the caller-owned replacement may have been re-keyed
    }
    w.log.add(st.op + (cs ? " cs " : " ci ") + Q(key) + " -> " + B(r));
}
DEFOP(replace_key) { replace_key_common(w, st, false); }
DEFOP(replace_key_alias) { replace_key_common(w, st, true); }

// ------------------------------------------------------------------ set
DEFOP(set_number) {
    MVal *n = w.pick(st.A(0), st.A(1), [&](MVal *m) { return m->type == T_NUMBER && w.mutable_node(m); });
    if (!n) { w.noop(st, "no number"); return; }
    double d = bits2d(st.A(2)); if (d != d) d = -1;
    int evals = 0;
    double r = cJSON_SetNumberValue(n->c, (evals++, d));
    w.expect(evals == 1, "return", "SetNumberValue evaluated its value argument " + I(evals) + " times");
    w.expect(r == d, "return", "SetNumberValue returned a different number");
    n->num = d;
    w.log.add("set_number " + mv_dump(n, 30));
}
// change a number in place to a related value (same position, different value): what diff generators must notice
DEFOP(nudge_number) {
    MVal *n = w.pick(st.A(0), st.A(1), [&](MVal *m) { return m->type == T_NUMBER && w.mutable_node(m); });
    if (!n) { w.noop(st, "no number"); return; }
    static const double f[] = {2.0, 3.0, 0.5, -1.0, 1.5, 10.0};
    double d = n->num == 0 ? (double)(1 + (uint64_t)st.A(2) % 4) * 1e-20 : n->num * f[(uint64_t)st.A(2) % 6];
    if (d != d || std::isinf(d)) d = 1;
    double r = cJSON_SetNumberValue(n->c, d);
    w.expect(r == d, "return", "SetNumberValue returned a different number");
    n->num = d;
    w.log.add("nudge_number " + mv_dump(n, 30));
}
DEFOP(set_int) {
    MVal *n = w.pick(st.A(0), st.A(1), [&](MVal *m) { return m->type == T_NUMBER && w.mutable_node(m); });
    if (!n) { w.noop(st, "no number"); return; }
    int v = (int)st.A(2);
    int evals = 0;   // a value argument with a side effect: the macro must evaluate it once
    int r = (int)cJSON_SetIntValue(n->c, (evals++, v));
    w.expect(evals == 1, "return", "SetIntValue evaluated its value argument " + I(evals) + " times");
    w.expect(r == v, "return", "SetIntValue returned a different number");
    n->num = (double)v;
    w.log.add("set_int " + I(v));
}
DEFOP(set_valuestring) {
    MVal *s = w.pick(st.A(0), st.A(1), [&](MVal *m) { return (m->type == T_STRING) && w.mutable_node(m); });
    if (!s) { w.noop(st, "no string"); return; }
    bool alias = (st.A(2) & 1) && s->refkind == R_NONE && !s->str.empty();
    std::string nv = st.S(0).c_str();
    const char *arg = nv.c_str();
    if (alias) arg = s->c->valuestring + ((uint64_t)st.A(3) % s->str.size());
    bool pred_ok = (s->refkind == R_NONE) && !alias;
    char *r = cJSON_SetValuestring(s->c, arg);
    if (w.tolerate_failure(r == nullptr)) return;
    w.expect((r != nullptr) == pred_ok, "return", std::string("SetValuestring returned ") + (r ? "non-NULL" : "NULL") + ", model says " + (pred_ok ? "non-NULL" : "NULL") + (alias ? " (overlapping source)" : "") + (s->refkind ? " (string reference)" : ""));
    if (pred_ok) {
        if (nv.size() > s->str.size()) w.stats.probes["setvaluestring_grow"]++;
        s->str = nv;
        w.expect(r == s->c->valuestring, "return", "SetValuestring did not return the item's string");
    }
    w.log.add(std::string("set_valuestring ") + (alias ? "(alias) " : "") + "-> " + (r ? "ok" : "NULL"));
}
DEFOP(set_bool) {
    MVal *n = w.pick(st.A(0), st.A(1), [&](MVal *m) { return w.mutable_node(m) && m->refkind == R_NONE; });
    if (!n) { w.noop(st, "no node"); return; }
    bool b = st.A(2) & 1;
    int evals = 0;
    int r = (int)cJSON_SetBoolValue(n->c, (evals++, b));
    bool isbool = n->type == T_TRUE || n->type == T_FALSE;
    w.expect(evals == (isbool ? 1 : 0) || evals == 1, "return", "SetBoolValue evaluated its value argument " + I(evals) + " times");
    if (isbool) {
        n->type = b ? T_TRUE : T_FALSE;
        w.expect((r & 0xFF) == n->type, "return", "SetBoolValue returned type " + I(r));
    } else w.expect(r == cJSON_Invalid, "return", "SetBoolValue on a non-boolean returned " + I(r));
    w.log.add("set_bool -> " + I(r & 0xFF));
}

// ------------------------------------------------------------------ queries
DEFOP(q_size) {
    MVal *c = w.pick(st.A(0), st.A(1), [&](MVal *m) { return m->refkind == R_NONE; });
    if (!c) { w.noop(st, "no node"); return; }
    int r = cJSON_GetArraySize(c->c);
    w.expect(r == (int)c->kids.size(), "query", "GetArraySize returned " + I(r) + ", model says " + I((int64_t)c->kids.size()));
    w.log.add("q_size -> " + I(r));
}
DEFOP(q_idx) {
    MVal *c = w.pick(st.A(0), st.A(1), [&](MVal *m) { return m->refkind == R_NONE && m->is_container(); });
    if (!c) { w.noop(st, "no container"); return; }
    int64_t idx = idx_arg(st.A(2), c->kids.size());
    cJSON *r = cJSON_GetArrayItem(c->c, (int)idx);
    cJSON *exp = (idx >= 0 && (size_t)idx < c->kids.size()) ? c->kids[(size_t)idx]->c : nullptr;
    w.expect(r == exp, "query", "GetArrayItem(" + I(idx) + ") of size " + I((int64_t)c->kids.size()) + " returned " + (r ? "a different node" : "NULL"));
    w.log.add("q_idx " + I(idx) + " -> " + (r ? "item" : "NULL"));
}
DEFOP(q_key) {
    MVal *c = w.pick(st.A(0), st.A(1), [&](MVal *m) { return m->refkind == R_NONE && m->type == T_OBJECT && all_keys_known(m); });
    if (!c) { w.noop(st, "no object"); return; }
    bool cs = st.A(2) & 1;
    std::string key = st.S(0).c_str();
    MVal *e = find_key(c, key, cs);
    cJSON *r = cs ? cJSON_GetObjectItemCaseSensitive(c->c, key.c_str()) : cJSON_GetObjectItem(c->c, key.c_str());
    w.expect(r == (e ? e->c : nullptr), "query", std::string("GetObjectItem") + (cs ? "CaseSensitive" : "") + "(" + Q(key) + ") returned " + (r ? std::string("member '") + (r->string ? r->string : "") + "'" : "NULL") + ", model says " + (e ? "member '" + e->key + "' (first match)" : "NULL"));
    cJSON_bool h = cJSON_HasObjectItem(c->c, key.c_str());
    w.expect((h != 0) == (find_key(c, key, false) != nullptr), "query", "HasObjectItem(" + Q(key) + ") returned " + B(h));
    w.log.add(std::string("q_key ") + (cs ? "cs " : "ci ") + Q(key) + " -> " + (r ? "member" : "NULL"));
}
DEFOP(q_foreach) {
    MVal *c = w.pick(st.A(0), st.A(1), [&](MVal *m) { return m->refkind == R_NONE && m->is_container(); });
    if (!c) { w.noop(st, "no container"); return; }
    size_t i = 0;
    cJSON *e = nullptr;
    cJSON_ArrayForEach(e, c->c) {
        if (i >= c->kids.size()) { w.mismatch("query", "iteration yields more items than the model holds"); return; }
        w.expect(e == c->kids[i]->c, "query", "iteration item " + I((int64_t)i) + " is not the model's item");
        i++;
    }
    w.expect(i == c->kids.size(), "query", "iteration yields " + I((int64_t)i) + " items, model holds " + I((int64_t)c->kids.size()));
    w.log.add("q_foreach -> " + I((int64_t)i));
}
DEFOP(q_val) {
    MVal *n = w.pick(st.A(0), st.A(1), [&](MVal *) { return true; });
    if (!n) { w.noop(st, "no node"); return; }
    const cJSON *c = n->c;
    char *sv = cJSON_GetStringValue(c);
    if (n->type == T_STRING) w.expect(sv && view_str(n) == sv, "query", "GetStringValue differs from the model");
    else w.expect(sv == nullptr, "query", "GetStringValue on a non-string is not NULL");
    double d = cJSON_GetNumberValue(c);
    if (n->type == T_NUMBER) w.expect(d == n->num || (d != d && n->num != n->num), "query", "GetNumberValue differs from the model");
    else w.expect(d != d, "query", "GetNumberValue on a non-number is not NaN");
    int t = n->type;
    bool ok = (cJSON_IsInvalid(c) != 0) == (t == T_INVALID) && (cJSON_IsFalse(c) != 0) == (t == T_FALSE) && (cJSON_IsTrue(c) != 0) == (t == T_TRUE) &&
              (cJSON_IsBool(c) != 0) == (t == T_TRUE || t == T_FALSE) && (cJSON_IsNull(c) != 0) == (t == T_NULL) && (cJSON_IsNumber(c) != 0) == (t == T_NUMBER) &&
              (cJSON_IsString(c) != 0) == (t == T_STRING) && (cJSON_IsArray(c) != 0) == (t == T_ARRAY) && (cJSON_IsObject(c) != 0) == (t == T_OBJECT) && (cJSON_IsRaw(c) != 0) == (t == T_RAW);
    w.expect(ok, "query", "Is* predicates disagree with the model type " + I(t));
    w.log.add("q_val type " + I(t));
}

// ------------------------------------------------------------------ duplicate / delete
static void clear_bindings_keep_keys(MVal *m, const MVal *src) {
    // copy key ownership facts from the source node onto the clone's root
    m->keystate = src->keystate; m->key = src->key; m->constkey = src->constkey; m->keypool = src->keypool;
}
static void copy_key_facts_rec(MVal *dst, const MVal *src) {
    clear_bindings_keep_keys(dst, src);
    auto sk = view_kids(src);
    for (size_t i = 0; i < dst->kids.size() && i < sk.size(); i++) copy_key_facts_rec(dst->kids[i], sk[i]);
}
DEFOP(dup) {
    NEED_FREE_SLOT();
    MVal *x = w.pick(st.A(0), st.A(1), [&](MVal *) { return true; });
    if (!x) { w.noop(st, "no node"); return; }
    bool recurse = st.A(2) & 1;
    // cJSON_bool is an int: every non-zero value asks for a recursive duplicate
    static const int truthy[] = {1, 1, 2, -1, 4, 255};
    cJSON *r = cJSON_Duplicate(x->c, recurse ? truthy[((uint64_t)st.A(2) / 2) % 6] : 0);
    if (w.tolerate_failure(r == nullptr)) return;
    if (!r) { w.mismatch("return", "Duplicate returned NULL for " + mv_dump(x, 60)); return; }
    MVal *m = mv_clone_value(x);
    copy_key_facts_rec(m, x);
    if (!recurse) { for (MVal *k : m->kids) mv_free(k); m->kids.clear(); }
    m->c = r;
    w.slots[slot] = m;
    if (x->refkind) w.stats.probes["dup_of_reference"]++;
    w.log.add(std::string("dup ") + (recurse ? "rec" : "flat") + " -> s" + I(slot) + " " + mv_dump(m, 60));
}
DEFOP(delete) {
    int s = w.live_slot(st.A(0));
    if (s < 0) { w.noop(st, "no root"); return; }
    MVal *x = w.slots[s];
    if (!w.movable_root(x)) { w.noop(st, "root is referenced (frozen)"); return; }
    cJSON *c = x->c;
    w.slots[s] = nullptr;
    w.model_delete(x);
    cJSON_Delete(c);
    w.log.add("delete s" + I(s));
}

// ------------------------------------------------------------------ calls that must be refused
DEFOP(refuse) {
    int kind = (int)((uint64_t)st.A(0) % 22);
    MVal *c = w.pick(st.A(1), st.A(2), [&](MVal *m) { return editable_container(w, m); });
    int xs = w.live_slot(st.A(3));
    MVal *x = xs >= 0 ? w.slots[xs] : nullptr;
    if (x && (!w.movable_root(x) || (c && mv_root(c) == x))) x = nullptr;
    std::string key = st.S(0).c_str();
    auto need = [&](bool cond) { if (!cond) { w.noop(st, "precondition"); } return cond; };
    std::string what;
    bool refused = true;
    switch (kind) {
        case 0: if (!need(x)) return; refused = !cJSON_AddItemToArray(nullptr, x->c); what = "AddItemToArray(NULL, item)"; break;
        case 1: if (!need(c)) return; refused = !cJSON_AddItemToArray(c->c, nullptr); what = "AddItemToArray(array, NULL)"; break;
        case 2: if (!need(c)) return; refused = !cJSON_AddItemToArray(c->c, c->c); what = "AddItemToArray(array, array)"; break;
        case 3: if (!need(c && x && c->type == T_OBJECT)) return; refused = !cJSON_AddItemToObject(c->c, nullptr, x->c); what = "AddItemToObject(object, NULL key, item)"; break;
        case 4: if (!need(c && c->type == T_OBJECT)) return; refused = !cJSON_AddItemToObject(c->c, key.c_str(), c->c); what = "AddItemToObject(object, key, object)"; break;
        case 5: if (!need(c && x)) return; refused = !cJSON_InsertItemInArray(c->c, -1, x->c); what = "InsertItemInArray(array, -1, item)"; break;
        case 6: {
            // a detached container inserted into itself at an existing position
            if (!need(c && !c->parent && !c->kids.empty())) return;
            int idx = (int)((uint64_t)st.A(4) % c->kids.size());
            refused = !cJSON_InsertItemInArray(c->c, idx, c->c);
            what = "InsertItemInArray(array, " + I(idx) + ", array) [container into itself]";
            w.stats.probes["insert_self"]++;
            break;
        }
        case 7: if (!need(c)) return; refused = !cJSON_InsertItemInArray(c->c, 0, nullptr); what = "InsertItemInArray(array, 0, NULL)"; break;
        case 8: {
            if (!need(c)) return;
            int64_t bad[3] = {-1, (int64_t)c->kids.size(), (int64_t)c->kids.size() + 1};
            int64_t idx = bad[(uint64_t)st.A(4) % 3];
            refused = cJSON_DetachItemFromArray(c->c, (int)idx) == nullptr; what = "DetachItemFromArray(index " + I(idx) + " of " + I((int64_t)c->kids.size()) + ")"; break;
        }
        case 9: {
            if (!need(c && c->type == T_OBJECT && all_keys_known(c))) return;
            std::string k = key + "\x01missing";
            refused = cJSON_DetachItemFromObject(c->c, k.c_str()) == nullptr && cJSON_DetachItemFromObjectCaseSensitive(c->c, k.c_str()) == nullptr && cJSON_DetachItemFromObject(c->c, nullptr) == nullptr;
            what = "DetachItemFromObject(missing key)"; break;
        }
        case 10: if (!need(c && !c->kids.empty())) return; refused = cJSON_DetachItemViaPointer(nullptr, c->kids[0]->c) == nullptr && cJSON_DetachItemViaPointer(c->c, nullptr) == nullptr; what = "DetachItemViaPointer(NULL argument)"; break;
        case 11: {
            if (!need(c && x)) return;
            int64_t idx = (st.A(4) & 1) ? -1 : (int64_t)c->kids.size();
            refused = !cJSON_ReplaceItemInArray(c->c, (int)idx, x->c); what = "ReplaceItemInArray(index " + I(idx) + " of " + I((int64_t)c->kids.size()) + ")"; break;
        }
        case 12: {
            if (!need(c && x && c->type == T_OBJECT && all_keys_known(c))) return;
            std::string k = key + "\x01missing";
            refused = !((st.A(4) & 1) ? cJSON_ReplaceItemInObjectCaseSensitive(c->c, k.c_str(), x->c) : cJSON_ReplaceItemInObject(c->c, k.c_str(), x->c));
            x->keystate = K_UNKNOWN; x->constkey = false;
            what = "ReplaceItemInObject(missing key)"; break;
        }
        case 13: if (!need(c && x && !c->kids.empty())) return;
            refused = !cJSON_ReplaceItemViaPointer(c->c, nullptr, x->c) && !cJSON_ReplaceItemViaPointer(c->c, c->kids[0]->c, nullptr) && !cJSON_ReplaceItemViaPointer(nullptr, c->kids[0]->c, x->c);
            what = "ReplaceItemViaPointer(NULL argument)"; break;
        case 14: {
            if (!need(c)) return;
            refused = cJSON_GetArrayItem(c->c, -1) == nullptr && cJSON_GetArrayItem(c->c, (int)c->kids.size()) == nullptr && cJSON_GetArrayItem(nullptr, 0) == nullptr &&
                      cJSON_GetObjectItem(nullptr, "a") == nullptr && cJSON_GetObjectItem(c->c, nullptr) == nullptr && cJSON_GetArraySize(nullptr) == 0 && !cJSON_HasObjectItem(nullptr, "a");
            what = "Get*(out of range / NULL)"; break;
        }
        case 15: {
            if (!need(c && c->type == T_OBJECT)) return;
            refused = cJSON_AddNullToObject(nullptr, "k") == nullptr && cJSON_AddNumberToObject(c->c, nullptr, 1.0) == nullptr && cJSON_AddStringToObject(c->c, key.c_str(), nullptr) == nullptr &&
                      cJSON_AddRawToObject(c->c, key.c_str(), nullptr) == nullptr && cJSON_AddObjectToObject(nullptr, "k") == nullptr && cJSON_AddTrueToObject(c->c, nullptr) == nullptr;
            what = "Add*ToObject(NULL argument)"; break;
        }
        case 16: {
            int one[1] = {1};
            const char *strs[2] = {"a", nullptr};
            refused = cJSON_CreateString(nullptr) == nullptr && cJSON_CreateRaw(nullptr) == nullptr && cJSON_CreateIntArray(nullptr, 3) == nullptr && cJSON_CreateIntArray(one, -1) == nullptr &&
                      cJSON_CreateDoubleArray(nullptr, 1) == nullptr && cJSON_CreateFloatArray(nullptr, 1) == nullptr && cJSON_CreateStringArray(nullptr, 1) == nullptr && cJSON_CreateStringArray(strs, 2) == nullptr;
            what = "Create*(NULL / negative count / NULL element)"; break;
        }
        case 17: {
            MVal *n = w.pick(st.A(1), st.A(2), [&](MVal *m) { return w.mutable_node(m) && m->type != T_STRING && m->refkind == R_NONE; });
            refused = cJSON_SetValuestring(nullptr, "x") == nullptr;
            if (n) refused = refused && cJSON_SetValuestring(n->c, "x") == nullptr;
            MVal *s = w.pick(st.A(1), st.A(2), [&](MVal *m) { return w.mutable_node(m) && m->type == T_STRING && m->refkind == R_NONE; });
            if (s) refused = refused && cJSON_SetValuestring(s->c, nullptr) == nullptr;
            what = "SetValuestring(NULL / non-string)"; break;
        }
        case 18: {
            if (!need(c)) return;
            refused = !cJSON_AddItemReferenceToArray(c->c, nullptr) && !cJSON_AddItemReferenceToObject(c->c, "k", nullptr);
            MVal *t = w.pick(st.A(3), st.A(4), [&](MVal *m) { return mv_root(m) != mv_root(c); });
            if (t) refused = refused && !cJSON_AddItemReferenceToArray(nullptr, t->c) && !cJSON_AddItemReferenceToObject(c->c, nullptr, t->c) && !cJSON_AddItemReferenceToObject(nullptr, "k", t->c);
            what = "AddItemReferenceTo*(NULL argument)"; break;
        }
        case 19: refused = cJSON_Duplicate(nullptr, 1) == nullptr; cJSON_Delete(nullptr); what = "Duplicate(NULL)/Delete(NULL)"; break;
        case 20: if (!need(x)) return; refused = !cJSON_InsertItemInArray(nullptr, 0, x->c); what = "InsertItemInArray(NULL, 0, item)"; break;
        default: {
            if (!need(c && c->type == T_OBJECT && x)) return;
            refused = !cJSON_AddItemToObjectCS(c->c, nullptr, x->c) && !cJSON_AddItemToObjectCS(c->c, pool().get(0), c->c) && !cJSON_AddItemToObjectCS(nullptr, pool().get(0), x->c);
            what = "AddItemToObjectCS(NULL / self)"; break;
        }
    }
    w.expect(refused, "refusal", what + " was accepted, the model says it must be refused");
    w.log.add("refuse " + I(kind) + " " + what + " -> refused");
}

// C05: a NaN cannot go through the number constructors (DESIGN 11): write it into an existing number item
DEFOP(poke_nan) {
    MVal *n = w.pick(st.A(0), st.A(1), [&](MVal *m) { return m->type == T_NUMBER && w.mutable_node(m) && m->refkind == R_NONE; });
    if (!n) { w.noop(st, "no number"); return; }
    n->c->valuedouble = NAN;
    n->num = NAN;
    w.log.add("poke_nan");
}
