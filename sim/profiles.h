#pragma once
#include "model.h"
// value-generation profiles selected by the plan knob "profile"
static inline GenOpts profile_opts(int profile) {
    GenOpts o;
    switch (profile) {
        case 1:  // C04: any non-zero bytes, finite numbers, no raw
            o.max_depth = 5; o.max_kids = 6; break;
        case 2:  // C05: valid UTF-8, non-finite allowed
            o.valid_utf8 = true; o.allow_nonfinite = true; o.max_depth = 5; o.max_kids = 6; break;
        case 3:  // Utils: distinct keys, pointer-ish keys, robustly comparable numbers
            o.distinct_keys = true; o.pointer_keys = true; o.plain_numbers = true; o.valid_utf8 = true; o.max_depth = 4; o.max_kids = 5; o.scalar_bias = 45; break;
        case 4:  // Utils merge: like 3 but without null members (for 'to' documents)
            o.distinct_keys = true; o.pointer_keys = true; o.plain_numbers = true; o.valid_utf8 = true; o.allow_null = false; o.max_depth = 4; o.max_kids = 5; break;
        case 6:  // Utils: case-variant keys, nested objects likely, no null members
            o.distinct_keys = true; o.case_keys = true; o.plain_numbers = true; o.valid_utf8 = true; o.ascii_strings = true; o.allow_null = false; o.max_depth = 3; o.max_kids = 4; o.scalar_bias = 35; break;
        case 5:  // small values
            o.max_depth = 2; o.max_kids = 3; break;
        default:  // generic histories
            o.allow_raw = true; o.max_depth = 4; o.max_kids = 5; break;
    }
    return o;
}
