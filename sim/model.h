// Reference model of cJSON trees (written from the property statements, the
// header comments and the README, not from cJSON.c) and the structural walk
// that compares a live library tree with it.
#pragma once
#include <cstdint>
#include <string>
#include <vector>
#include "prng.h"

extern "C" {
#include "cJSON.h"
}

enum { T_INVALID = 0, T_FALSE = 1, T_TRUE = 2, T_NULL = 4, T_NUMBER = 8, T_STRING = 16, T_ARRAY = 32, T_OBJECT = 64, T_RAW = 128 };
enum { K_NONE = 0, K_KNOWN = 1, K_UNKNOWN = 2 };
enum { R_NONE = 0, R_ITEM = 1 /* AddItemReferenceTo* */, R_STRPOOL = 2 /* CreateStringReference */, R_CHILD = 3 /* Create{Array,Object}Reference */ };

struct MVal {
    int type = T_NULL;
    double num = 0;
    std::string str;
    int keystate = K_NONE;
    std::string key;
    bool constkey = false;
    int keypool = -1;
    int refkind = R_NONE;
    MVal *target = nullptr;
    int strpool = -1;
    std::vector<MVal *> kids;
    MVal *parent = nullptr;
    cJSON *c = nullptr;
    int frozen = 0;  // roots only: number of live references into this tree

    bool is_container() const { return type == T_ARRAY || type == T_OBJECT; }
};

// harness-owned pool of constant byte strings that the library may only borrow
struct Pool {
    std::vector<char *> ptr;   // canaried blocks
    std::vector<std::string> val;
    void init();
    bool intact() const;       // contents and canaries unchanged
    const char *get(int i) const { return ptr[(size_t)i % ptr.size()]; }
    int index(int64_t i) const { return (int)((uint64_t)i % ptr.size()); }
    const std::string &value(int i) const { return val[(size_t)i % val.size()]; }
    bool owns(const void *p) const;
    int find(const void *p) const;   // index of the pool string starting at p, -1 if none
};
Pool &pool();

// Memory the caller lends to the library for one run (texts of string references, constant keys of documents the harness
// builds through the constructors). It is READ-ONLY while the library runs: any write, even one that is undone before the
// call returns, faults (the driver reports it as write-to-borrowed-memory). Filled between open() and seal(), never reused
// within a run.
namespace borrowed {
void reset_run();
void open();                                  // harness may add strings (no library call may run until seal())
const char *put(const std::string &s);        // nullptr when the region is full
void seal();
bool contains(const void *p);                 // inside the lent region or the constant pool
}

MVal *mv_new(int type);
MVal *mv_num(double d);
MVal *mv_str(const std::string &s);
void mv_free(MVal *m);                 // deep (owned kids only)
MVal *mv_clone_value(const MVal *m);   // deep copy of the *value view* (references resolved, no bindings, key kept)
int saturate_int(double d);
MVal *mv_root(MVal *m);
void mv_add_kid(MVal *c, MVal *x, size_t pos);
void mv_detach(MVal *x);  // remove from parent
// effective view of a node (resolves references)
int view_type(const MVal *m);
const std::string &view_str(const MVal *m);
std::vector<const MVal *> view_kids(const MVal *m);
void mv_collect(MVal *m, std::vector<MVal *> &out);  // pre-order, owned nodes only
size_t mv_depth(const MVal *m);

// semantic equality of JSON values (views). obj_as_set: objects compare as key->value sets
struct EqOpts {
    bool obj_as_set = false;
    double rel_tol = 0.0;     // numbers: |a-b| <= rel_tol*max(|a|,|b|) ; 0: exact (or both NaN)
    bool exact_int_below_1e15 = true;
    bool nonfinite_is_null = false;  // a non-finite number on the left equals null on the right
};
bool mv_equal(const MVal *a, const MVal *b, const EqOpts &o, std::string *why = nullptr);
std::string mv_dump(const MVal *m, size_t maxlen = 400);  // debug rendering (JSON-like, bytes escaped)
uint64_t mv_hash(const MVal *m, uint64_t h = 0x9E3779B97F4A7C15ull);

// Structural walk: compares the live tree n with the model m and (re)binds m->c.
// Returns false and sets why on the first difference. Cycle-safe (bounded by the model).
bool walk_check(const cJSON *n, MVal *m, bool as_root, std::string &why);
// optional: tells whether an owned string/key pointer is a live block of the simulated allocator; the harness never reads
// through a pointer that is not (it would be the harness touching released memory, not the library)
extern bool (*mv_block_live)(const void *);
extern bool mv_lenient_valueint;   // properties that do not state the integer view of a number: a deviation there does not end the run (its consequences are judged)
extern bool mv_tolerate_dangling;   // memory-judging properties: skip the comparison and let the ledger / sanitizer decide later
// Well-formedness of a library tree without a model (C01/C10/C16): chains end in
// NULL, back links mirror forward links, first->prev == last. Bounded by budget.
bool struct_wellformed(const cJSON *n, bool as_root, size_t &budget, size_t depth, std::string &why);
// Read a library tree into a model (values only; references are read through). NULL if unreadable.
MVal *read_struct(const cJSON *n, size_t &budget, size_t depth, std::string &why, bool bind = false);

// seeded value generation
struct GenOpts {
    int max_depth = 4;
    int max_kids = 5;
    bool distinct_keys = false;        // per object (also distinct after ASCII case folding if fold_distinct)
    bool fold_distinct = false;
    bool valid_utf8 = false;           // strings and keys valid UTF-8 only
    bool allow_nonfinite = false;
    bool allow_raw = false;
    bool pointer_keys = false;
    bool case_keys = false;            // keys from a tiny alphabet of case variants (a A b B c C)         // keys over an alphabet with / ~ 0 1 - and the empty key
    bool allow_null = true;
    bool plain_numbers = false;        // numbers that Utils compares robustly (identical or clearly different)
    bool ascii_strings = false;
    int scalar_bias = 50;              // percent chance of a scalar at depth>0
    int wide_den = 150;                // 1/wide_den of the containers at depth <= 1 get 33+ members
};
double gen_number(Rng &r, bool allow_nonfinite, bool plain);
std::string gen_string(Rng &r, bool valid_utf8, bool ascii_only, size_t maxlen = 12);
std::string gen_longkey(Rng &r, bool pointer_chars);
std::string gen_key(Rng &r, const GenOpts &o);
MVal *gen_value(Rng &r, const GenOpts &o, int depth = 0);
