#!/usr/bin/env python3
"""Sensitivity self-test with hand-written mutants (DESIGN.md section 8).
  selftest/mutants.py gen            write selftest/mutants/<name>.patch from the substitution table below
  selftest/mutants.py run [names]    for each patch: scratch worktree of /repo under /tmp, apply, the repository's tests must
                                     still pass (otherwise the mutant is reported as 'invalid' and not counted), then the
                                     property's quick check must report a violation; the scratch copy is removed immediately.
Results are written to selftest/mutants/results.json."""
import json, os, re, shutil, subprocess, sys, time, hashlib
VERIF = os.path.dirname(os.path.dirname(os.path.abspath(__file__)))
MUT = os.path.join(VERIF, "selftest", "mutants")

C, U = "cJSON.c", "cJSON_Utils.c"
# (name, property, file, old, new[, occurrence])
M = [
 ("m01a_backslash_at_end", "C01", C, """                if ((size_t)(input_end + 1 - input_buffer->content) >= input_buffer->length)
                {
                    /* prevent buffer overflow when last input character is a backslash */
                    goto fail;
                }
""", ""),
 ("m01b_bom_unchecked", "C01", C, "if (can_access_at_index(buffer, 2) && (strncmp(", "if ((strncmp("),
 ("m01c_array_end_unchecked", "C01", C, """    /* check if we skipped to the end of the buffer */
    if (cannot_access_at_index(input_buffer, 0))
    {
        input_buffer->offset--;
        goto fail;
    }

    /* step back to character in front of the first element */
    input_buffer->offset--;
    /* loop through the comma separated array elements */
    do
    {
        /* allocate next item */
        cJSON *new_item = cJSON_New_Item(&(input_buffer->hooks));
        CJSON_VERIF_YIELD(3)""", """    /* step back to character in front of the first element */
    input_buffer->offset--;
    /* loop through the comma separated array elements */
    do
    {
        /* allocate next item */
        cJSON *new_item = cJSON_New_Item(&(input_buffer->hooks));
        CJSON_VERIF_YIELD(3)"""),
 ("m01d_prescan_le", "C01", C, "while (((size_t)(input_end - input_buffer->content) < input_buffer->length) && (*input_end != '\\\"'))", "while (((size_t)(input_end - input_buffer->content) <= input_buffer->length) && (*input_end != '\\\"'))"),
 ("m04e_copy_without_terminator", "C04", C, """        memcpy(printed, buffer->buffer, cjson_min(buffer->length, buffer->offset + 1));
        printed[buffer->offset] = '\\0'; /* just to be sure */""", """        memcpy(printed, buffer->buffer, cjson_min(buffer->length, buffer->offset));"""),
 ("m09d_number_reserves_short", "C09", C, "    output_pointer = ensure(output_buffer, (size_t)length + sizeof(\"\"));", "    output_pointer = ensure(output_buffer, (size_t)length - 1);"),
 ("m09e_object_open_reserves_0", "C09", C, """    length = (size_t) (output_buffer->format ? 2 : 1); /* fmt: {\\n */
    output_pointer = ensure(output_buffer, length + 1);""", """    length = (size_t) (output_buffer->format ? 2 : 1); /* fmt: {\\n */
    output_pointer = ensure(output_buffer, 0);"""),
 ("m03a_nul_literal", "C03", C, """    if (can_read(input_buffer, 4) && (strncmp((const char*)buffer_at_offset(input_buffer), "null", 4) == 0))
    {
        item->type = cJSON_NULL;
        input_buffer->offset += 4;""", """    if (can_read(input_buffer, 3) && (strncmp((const char*)buffer_at_offset(input_buffer), "nul", 3) == 0))
    {
        item->type = cJSON_NULL;
        input_buffer->offset += (can_read(input_buffer, 4) && (buffer_at_offset(input_buffer)[3] == 'l')) ? 4 : 3;"""),
 ("m03b_low_surrogate_unchecked", "C03", C, "if ((second_code < 0xDC00) || (second_code > 0xDFFF))", "if (second_code > 0xDFFF)"),
 ("m03c_equals_as_colon", "C03", C, "if (cannot_access_at_index(input_buffer, 0) || (buffer_at_offset(input_buffer)[0] != ':'))", "if (cannot_access_at_index(input_buffer, 0) || ((buffer_at_offset(input_buffer)[0] != ':') && (buffer_at_offset(input_buffer)[0] != '=')))"),
 ("m03d_trailing_comma_array", "C03", C, """        /* parse next value */
        input_buffer->offset++;
        buffer_skip_whitespace(input_buffer);
        if (!parse_value(current_item, input_buffer))
        {
            goto fail; /* failed to parse value */
        }""", """        /* parse next value */
        input_buffer->offset++;
        buffer_skip_whitespace(input_buffer);
        if ((current_item != head) && can_access_at_index(input_buffer, 0) && (buffer_at_offset(input_buffer)[0] == ']'))
        {
            /* tolerate a trailing comma */
            current_item->type = cJSON_NULL;
            break;
        }
        if (!parse_value(current_item, input_buffer))
        {
            goto fail; /* failed to parse value */
        }"""),
 ("m04a_tolerance_x16", "C04", C, "return (fabs(a - b) <= maxVal * DBL_EPSILON);", "return (fabs(a - b) <= maxVal * DBL_EPSILON * 16);"),
 ("m04b_copy_loses_byte", "C04", C, "memcpy(newbuffer, p->buffer, p->offset + 1);", "memcpy(newbuffer, p->buffer, p->offset);"),
 ("m04c_final_realloc_short", "C04", C, "printed = (unsigned char*) hooks->reallocate(buffer->buffer, buffer->offset + 1);", "printed = (unsigned char*) hooks->reallocate(buffer->buffer, buffer->offset);"),
 ("m04d_15_digits_only", "C04", C, 'length = sprintf((char*)number_buffer, "%1.17g", d);', 'length = sprintf((char*)number_buffer, "%1.16g", d);'),
 ("m05a_unformatted_array_space", "C05", C, """            length = (size_t) (output_buffer->format ? 2 : 1);
            output_pointer = ensure(output_buffer, length + 1);
            if (output_pointer == NULL)
            {
                return false;
            }
            *output_pointer++ = ',';
            if(output_buffer->format)
            {""", """            length = (size_t) ((output_buffer->format || (output_buffer->depth > 2)) ? 2 : 1);
            output_pointer = ensure(output_buffer, length + 1);
            if (output_pointer == NULL)
            {
                return false;
            }
            *output_pointer++ = ',';
            if(output_buffer->format || (output_buffer->depth > 2))
            {"""),
 ("m05b_buffered_ignores_fmt", "C05", C, "    p.noalloc = false;\n    p.format = fmt;", "    p.noalloc = false;\n    p.format = (prebuffer > 64) ? true : fmt;"),
 ("m05c_control_byte_raw", "C05", C, """                if (*input_pointer < 32)
                {
                    /* UTF-16 escape sequence uXXXX */
                    escape_characters += 5;
                }""", """                if ((*input_pointer < 32) && (*input_pointer != 0x1f))
                {
                    /* UTF-16 escape sequence uXXXX */
                    escape_characters += 5;
                }"""),
 ("m06a_detach_last_no_fixup", "C06", C, """        /* last element */
        CJSON_VERIF_YIELD(16)
        parent->child->prev = item->prev;""", """        /* last element */
        CJSON_VERIF_YIELD(16)"""),
 ("m06b_cs_lookup_folds", "C06", C, "while ((current_element != NULL) && (current_element->string != NULL) && (strcmp(name, current_element->string) != 0))", "while ((current_element != NULL) && (current_element->string != NULL) && (case_insensitive_strcmp((const unsigned char*)name, (const unsigned char*)current_element->string) != 0))"),
 ("m06c_insert_forgets_link", "C06", C, """    else
    {
        newitem->prev->next = newitem;
    }
    return true;""", """    return true;"""),
 ("m06d_detach_index_off_by_one", "C06", C, """    if (which < 0)
    {
        return NULL;
    }

    return cJSON_DetachItemViaPointer(array, get_array_item(array, (size_t)which));""", """    if (which < 0)
    {
        return NULL;
    }
    if ((which > 6) && (get_array_item(array, (size_t)which + 1) == NULL))
    {
        which--;
    }

    return cJSON_DetachItemViaPointer(array, get_array_item(array, (size_t)which));"""),
 ("m07a_old_key_leaked", "C07", C, """    if (!(item->type & cJSON_StringIsConst) && (item->string != NULL))
    {
        hooks->deallocate(item->string);
    }

    item->string = new_key;""", """    item->string = new_key;"""),
 ("m07b_dup_keeps_reference_bit", "C07", C, "newitem->type = item->type & (~cJSON_IsReference);", "newitem->type = item->type;"),
 ("m07c_replaced_item_leaked", "C07", C, """    item->next = NULL;
    item->prev = NULL;
    cJSON_Delete(item);

    return true;""", """    item->next = NULL;
    item->prev = NULL;
    if (item->child == NULL)
    {
        cJSON_Delete(item);
    }

    return true;"""),
 ("m07d_const_key_freed", "C07", C, """        if (!(item->type & cJSON_StringIsConst) && (item->string != NULL))
        {
            global_hooks.deallocate(item->string);
            item->string = NULL;
        }""", """        if ((!(item->type & cJSON_StringIsConst) || (item->type & cJSON_IsReference)) && (item->string != NULL))
        {
            global_hooks.deallocate(item->string);
            item->string = NULL;
        }"""),
 ("m08a_create_string_unchecked", "C08", C, """        item->valuestring = (char*)cJSON_strdup((const unsigned char*)string, &global_hooks);
        if(!item->valuestring)
        {
            cJSON_Delete(item);
            return NULL;
        }
    }

    return item;
}

CJSON_PUBLIC(cJSON *) cJSON_CreateStringReference""", """        item->valuestring = (char*)cJSON_strdup((const unsigned char*)string, &global_hooks);
    }

    return item;
}

CJSON_PUBLIC(cJSON *) cJSON_CreateStringReference"""),
 ("m08b_int_array_partial_leak", "C08", C, """        n = cJSON_CreateNumber(numbers[i]);
        if (!n)
        {
            cJSON_Delete(a);
            return NULL;
        }""", """        n = cJSON_CreateNumber(numbers[i]);
        if (!n)
        {
            return NULL;
        }"""),
 ("m08c_ensure_failed_growth_leak", "C08", C, """        if (!newbuffer)
        {
            CJSON_VERIF_YIELD(9)
            p->hooks.deallocate(p->buffer);
            p->length = 0;""", """        if (!newbuffer)
        {
            CJSON_VERIF_YIELD(9)
            p->length = 0;"""),
 ("m08d_duplicate_fail_leak", "C08", C, """        newitem->valuestring = (char*)cJSON_strdup((unsigned char*)item->valuestring, &global_hooks);
        if (!newitem->valuestring)
        {
            goto fail;
        }""", """        newitem->valuestring = (char*)cJSON_strdup((unsigned char*)item->valuestring, &global_hooks);
        if (!newitem->valuestring)
        {
            return NULL;
        }"""),
 ("m09a_null_reserves_4", "C09", C, """            output = ensure(output_buffer, 5);
            if (output == NULL)
            {
                return false;
            }
            strcpy((char*)output, "null");""", """            output = ensure(output_buffer, 4);
            if (output == NULL)
            {
                return false;
            }
            strcpy((char*)output, "null");"""),
 ("m09b_array_close_reserves_1", "C09", C, """    output_pointer = ensure(output_buffer, 2);
    if (output_pointer == NULL)
    {
        return false;
    }
    *output_pointer++ = ']';""", """    output_pointer = ensure(output_buffer, 1);
    if (output_pointer == NULL)
    {
        return false;
    }
    *output_pointer++ = ']';"""),
 ("m09c_noalloc_not_monotone", "C09", C, """    if (p->noalloc) {
        CJSON_VERIF_YIELD(20)
        return NULL;
    }""", """    if (p->noalloc) {
        CJSON_VERIF_YIELD(20)
        return NULL;
    }
    if ((p->length == 0) && (needed == 2)) {
        return NULL;
    }"""),
 ("m10a_error_clamp_to_length", "C10", C, "            local_error.position = buffer.length - 1;", "            local_error.position = buffer.length;"),
 ("m10b_global_error_not_reset", "C10", C, """    /* reset error position */
    global_error.json = NULL;
    global_error.position = 0;

    if (value == NULL || 0 == buffer_length)""", """    if (value == NULL || 0 == buffer_length)"""),
 ("m10c_parse_end_only_on_success", "C10", C, """        if (return_parse_end != NULL)
        {
            *return_parse_end = (const char*)local_error.json + local_error.position;
        }

        global_error = local_error;""", """        global_error = local_error;"""),
 ("m10d_trailing_garbage_after_ws", "C10", C, """        if ((buffer.offset >= buffer.length) || buffer_at_offset(&buffer)[0] != '\\0')
        {
            goto fail;
        }""", """        if ((buffer.offset >= buffer.length) || ((buffer_at_offset(&buffer)[0] != '\\0') && (buffer_at_offset(&buffer)[0] != '#')))
        {
            goto fail;
        }"""),
 ("m11a_shared_valuestring", "C11", C, """        newitem->valuestring = (char*)cJSON_strdup((unsigned char*)item->valuestring, &global_hooks);
        if (!newitem->valuestring)
        {
            goto fail;
        }""", """        newitem->valuestring = (item->type & cJSON_IsReference) ? item->valuestring : (char*)cJSON_strdup((unsigned char*)item->valuestring, &global_hooks);
        if (!newitem->valuestring)
        {
            goto fail;
        }
        newitem->type |= (item->type & cJSON_IsReference);"""),
 ("m11b_copy_tail_link_dropped", "C11", C, """    if (newitem && newitem->child)
    {
        newitem->child->prev = newchild;
    }

    return newitem;""", """    return newitem;"""),
 ("m11c_depth_limit_x3", "C11", C, "if(depth >= CJSON_CIRCULAR_LIMIT) {", "if(depth >= 3 * CJSON_CIRCULAR_LIMIT) {"),
 ("m14a_setvaluestring_libc_free", "C14", C, """    if (object->valuestring != NULL)
    {
        cJSON_free(object->valuestring);
    }
    object->valuestring = copy;""", """    if (object->valuestring != NULL)
    {
        free(object->valuestring);
    }
    object->valuestring = copy;"""),
 ("m14b_utils_strdup_malloc", "C14", U, "    copy = (unsigned char*) cJSON_malloc(length);", "    copy = (unsigned char*) malloc(length);"),
 ("m14c_realloc_with_one_custom", "C14", C, "if ((global_hooks.allocate == malloc) && (global_hooks.deallocate == free))", "if ((global_hooks.allocate == malloc) || (global_hooks.deallocate == free))"),
 ("m16a_index_past_end_appends", "C16", U, """    if (which > 0)
    {
        /* item is after the end of the array */
        return 0;
    }
    if (child == NULL)""", """    if (child == NULL)"""),
 ("m16b_test_ignores_array_tail", "C16", U, """            /* array size mismatch? (one of both children is not NULL) */
            if ((a != NULL) || (b != NULL))""", """            /* array size mismatch? (one of both children is not NULL) */
            if ((a != NULL) && (b == NULL))"""),
 ("m16c_removed_item_leaked", "C16", U, """            status = 13;
            goto cleanup;
        }
        cJSON_Delete(old_item);""", """            status = 13;
            goto cleanup;
        }
        if (opcode == REPLACE)
        {
            cJSON_Delete(old_item);
        }"""),
 ("m17a_tail_removals_increasing", "C17", U, """                sprintf((char*)new_path, "%lu", (unsigned long)index);
                compose_patch(patches, (const unsigned char*)"remove", path, new_path, NULL);""", """                sprintf((char*)new_path, "%lu", (unsigned long)index);
                compose_patch(patches, (const unsigned char*)"remove", path, new_path, NULL);
                index++;"""),
 ("m17b_escape_codes_swapped", "C17", U, """        if (source[0] == '/')
        {
            destination[0] = '~';
            destination[1] = '1';""", """        if (source[0] == '/')
        {
            destination[0] = '~';
            destination[1] = '0';"""),
 ("m18a_null_member_ignored", "C18", U, """            if (case_sensitive)
            {
                cJSON_DeleteItemFromObjectCaseSensitive(target, patch_child->string);
            }
            else
            {
                cJSON_DeleteItemFromObject(target, patch_child->string);
            }
        }
        else
        {
            cJSON *replace_me = NULL;""", """            if (!case_sensitive)
            {
                cJSON_DeleteItemFromObject(target, patch_child->string);
            }
        }
        else
        {
            cJSON *replace_me = NULL;"""),
 ("m18b_nonobject_target_kept", "C18", U, """    if (!cJSON_IsObject(target))
    {
        cJSON_Delete(target);
        target = cJSON_CreateObject();
    }""", """    if (!cJSON_IsObject(target) && !cJSON_IsArray(target))
    {
        cJSON_Delete(target);
        target = cJSON_CreateObject();
    }"""),
 ("m19a_merge_drops_prev", "C19", U, """            result_tail->next = smaller;
            smaller->prev = result_tail;
            result_tail = smaller;""", """            result_tail->next = smaller;
            result_tail = smaller;"""),
 ("m19b_public_sort_wrong_variant", "C19", U, """CJSON_PUBLIC(void) cJSONUtils_SortObject(cJSON * const object)
{
    sort_object(object, false);""", """CJSON_PUBLIC(void) cJSONUtils_SortObject(cJSON * const object)
{
    sort_object(object, true);"""),
 ("m20a_static_version_style_buffer", "C20", C, "    unsigned char number_c_string[64];", "    static unsigned char number_c_string[64];"),
 ("m20b_lazy_fold_table", "C20", C, """    for(; tolower(*string1) == tolower(*string2); (void)string1++, string2++)
    {
        if (*string1 == '\\0')
        {
            return 0;
        }
    }

    return tolower(*string1) - tolower(*string2);
}

typedef struct internal_hooks""", """    {
        static unsigned char fold[256];
        static int fold_ready = 0;
        if (!fold_ready)
        {
            int c = 0;
            for (c = 0; c < 256; c++)
            {
                fold[c] = 0;
            }
            for (c = 0; c < 256; c++)
            {
                fold[c] = (unsigned char)tolower(c);
            }
            fold_ready = 1;
        }
        for(; fold[*string1] == fold[*string2]; (void)string1++, string2++)
        {
            if (*string1 == '\\0')
            {
                return 0;
            }
        }

        return fold[*string1] - fold[*string2];
    }
}

typedef struct internal_hooks"""),
 ("m20c_static_printbuffer_depth", "C20", C, """    *output_pointer = '[';
    output_buffer->offset++;
    output_buffer->depth++;""", """    *output_pointer = '[';
    output_buffer->offset++;
    {
        static size_t array_depth = 0;
        array_depth = output_buffer->depth + 1;
        output_buffer->depth = array_depth;
    }"""),
]
# behaviour-preserving refactors: every check must stay green on them
R = [
 ("r01_growth_factor_3", None, C, "        newsize = needed * 2;", "        newsize = needed + (needed / 2) + 16;"),
 ("r02_initial_print_buffer_64", None, C, "static const size_t default_buffer_size = 256;", "static const size_t default_buffer_size = 64;"),
 ("r03_delete_iterative_order", None, C, """        if (!(item->type & cJSON_IsReference) && (item->valuestring != NULL))
        {
            global_hooks.deallocate(item->valuestring);
            item->valuestring = NULL;
        }
        if (!(item->type & cJSON_StringIsConst) && (item->string != NULL))
        {
            global_hooks.deallocate(item->string);
            item->string = NULL;
        }""", """        if (!(item->type & cJSON_StringIsConst) && (item->string != NULL))
        {
            global_hooks.deallocate(item->string);
            item->string = NULL;
        }
        if (!(item->type & cJSON_IsReference) && (item->valuestring != NULL))
        {
            global_hooks.deallocate(item->valuestring);
            item->valuestring = NULL;
        }"""),
 ("r04_strdup_via_strcpy", None, C, "    memcpy(copy, string, length);\n\n    return copy;", "    strcpy((char*)copy, (const char*)string);\n\n    return copy;"),
 ("r05_parse_number_buffer_128", None, C, "    unsigned char number_c_string[64];", "    unsigned char number_c_string[128];"),
 ("r06_sort_stable_ties", None, U, "if (compare_strings((unsigned char*)first->string, (unsigned char*)second->string, case_sensitive) < 0)\n        {\n            smaller = first;", "if (compare_strings((unsigned char*)first->string, (unsigned char*)second->string, case_sensitive) <= 0)\n        {\n            smaller = first;"),
]


def sh(cmd, cwd=None, timeout=3600, env=None):
    r = subprocess.run(cmd, shell=True, cwd=cwd, stdout=subprocess.PIPE, stderr=subprocess.STDOUT, text=True, errors="replace", timeout=timeout, env=env)
    return r.returncode, r.stdout


def worktree(tag):
    d = "/tmp/mut_" + tag
    sh("git -C /repo worktree remove --force %s" % d)
    shutil.rmtree(d, ignore_errors=True)
    rc, out = sh("git -C /repo worktree add -q --detach %s HEAD" % d)
    if rc:
        raise SystemExit(out)
    return d


def drop(d):
    sh("git -C /repo worktree remove --force %s" % d)
    shutil.rmtree(d, ignore_errors=True)
    sh("git -C /repo worktree prune")
    shutil.rmtree(os.path.join(VERIF, "build", "alt-" + hashlib.sha1(d.encode()).hexdigest()[:10]), ignore_errors=True)


def gen():
    os.makedirs(MUT, exist_ok=True)
    d = worktree("gen")
    try:
        for entry in M + R:
            name, prop, fn, old, new = entry[:5]
            p = os.path.join(d, fn)
            s = open(p).read()
            if s.count(old) != 1:
                print("SKIP %s: pattern occurs %d times" % (name, s.count(old)))
                continue
            open(p, "w").write(s.replace(old, new))
            rc, out = sh("git diff", cwd=d)
            with open(os.path.join(MUT, name + ".patch"), "w") as f:
                f.write("# property: %s\n" % (prop or "none (behaviour-preserving refactor)"))
                f.write(out)
            sh("git checkout -- .", cwd=d)
    finally:
        drop(d)
    print("patches:", len([f for f in os.listdir(MUT) if f.endswith(".patch")]))


def run(names):
    resf = os.path.join(MUT, "results.json")
    results = json.load(open(resf)) if os.path.exists(resf) else {}
    for f in sorted(os.listdir(MUT)):
        if not f.endswith(".patch"):
            continue
        name = f[:-6]
        if names and name not in names:
            continue
        head = open(os.path.join(MUT, f)).readline()
        prop = head.split(":")[1].split()[0]
        d = worktree(name)
        res = dict(property=prop)
        try:
            rc, out = sh("git apply %s" % os.path.join(MUT, f), cwd=d)
            if rc:
                res["status"] = "patch does not apply"
            else:
                rc, out = sh("cmake -G Ninja -S . -B _b -DENABLE_CJSON_UTILS=ON -DCMAKE_C_FLAGS=-Wno-error >/dev/null 2>&1 && cmake --build _b 2>&1 | tail -5 && ctest --test-dir _b -j8 2>&1 | tail -3", cwd=d)
                shutil.rmtree(os.path.join(d, "_b"), ignore_errors=True)
                if "100% tests passed" not in out:
                    res["status"] = "invalid: the repository's tests fail with it"
                    res["detail"] = out[-300:]
                else:
                    props = [prop] if prop != "none" else ["C01", "C03", "C04", "C05", "C06", "C07", "C08", "C09", "C10", "C11", "C14", "C16", "C17", "C18", "C19", "C20"]
                    res["checks"] = {}
                    for p in props:
                        env = dict(os.environ, VERIF_REPO=d)
                        if prop == "none":
                            env["VERIF_BUDGET"] = "6"
                        t0 = time.time()
                        rc, out = sh("./check %s quick" % p, cwd=VERIF, env=env)
                        res["checks"][p] = dict(rc=rc, classes=sorted(set(re.findall(r"^violation class (\S+)", out, re.M))), wall=round(time.time() - t0, 1))
                    if prop != "none":
                        res["status"] = "caught" if res["checks"][prop]["rc"] == 1 else ("MISSED" if res["checks"][prop]["rc"] == 0 else "machinery failure")
                    else:
                        bad = [p for p, r in res["checks"].items() if r["rc"] != 0]
                        res["status"] = "green" if not bad else "FALSE ALARM in " + ",".join(bad)
        finally:
            drop(d)
        results[name] = res
        json.dump(results, open(resf, "w"), indent=1, sort_keys=True)
        print(name, res["status"], res.get("checks", {}).get(prop, {}).get("classes", ""), flush=True)


if __name__ == "__main__":
    if len(sys.argv) > 1 and sys.argv[1] == "gen":
        gen()
    else:
        run(sys.argv[2:])
