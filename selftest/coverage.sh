#!/bin/sh
# Reach of the workloads inside the library: builds a coverage flavour of cjsim (library objects with clang source
# coverage, harness objects of the asan flavour), runs a slice of every claimed property's quick batch and reports
# which functions / lines of cJSON.c and cJSON_Utils.c no check executes.  Scratch data lives under /tmp and is removed.
# usage: selftest/coverage.sh [seconds_per_property]   (result: selftest/coverage.txt)
set -e
S=${1:-10}
cd "$(dirname "$0")/.."
REPO=${VERIF_REPO:-/repo}; B=$PWD/build; T=$(mktemp -d /tmp/cjcov.XXXXXX)
trap 'rm -rf "$T"' EXIT
make -s -C sim -j16 REPO=$REPO B=$B asan >/dev/null
F="-fsanitize=address,undefined -fno-sanitize=pointer-overflow -fno-sanitize-recover=all -fno-omit-frame-pointer -O1 -g"
P="-fprofile-instr-generate -fcoverage-mapping"
SEAM="-Dmalloc=sim_malloc -Dfree=sim_free -Drealloc=sim_realloc -DDAVEGAMBLE_CJSON_VERIF -DENABLE_LOCALES"
clang $F $P $SEAM -I$REPO -c $REPO/cJSON.c -o $T/cJSON.o
clang $F $P $SEAM -I$REPO -c $REPO/cJSON_Utils.c -o $T/cJSON_Utils.o
HO=$(ls $B/asan/*.o | grep -v '/cJSON')
clang++ $F $P $HO $T/cJSON.o $T/cJSON_Utils.o -o $T/cjsim -lpthread -lm
: > selftest/coverage.txt
ALL=""
for p in C01 C03 C04 C05 C06 C07 C08 C09 C10 C11 C14 C16 C17 C18 C19 C20; do
  for w in 0 1 2 3 4 5 6 7; do
    LLVM_PROFILE_FILE=$T/$p.$w.profraw CJSIM_TIER=quick ASAN_OPTIONS=detect_leaks=0 $T/cjsim batch $p 20261004 $w 8 100000000 $S >/dev/null 2>&1 &
  done
  wait
  llvm-profdata-14 merge -o $T/$p.profdata $T/$p.*.profraw; rm -f $T/$p.*.profraw
  ALL="$ALL $T/$p.profdata"
  echo "== $p" >> selftest/coverage.txt
  llvm-cov-14 report $T/cjsim -instr-profile=$T/$p.profdata $REPO/cJSON.c $REPO/cJSON_Utils.c 2>/dev/null | grep -E "cJSON|TOTAL" >> selftest/coverage.txt
  echo "   public functions not executed by $p:" $(llvm-cov-14 report $T/cjsim -instr-profile=$T/$p.profdata -show-functions $REPO/cJSON.c $REPO/cJSON_Utils.c 2>/dev/null | awk 'NF>=7 && $4=="0.00%" && $1 ~ /^cJSON/ {printf "%s ", $1}') >> selftest/coverage.txt
done
llvm-profdata-14 merge -o $T/all.profdata $ALL
echo "== all checks together" >> selftest/coverage.txt
llvm-cov-14 report $T/cjsim -instr-profile=$T/all.profdata $REPO/cJSON.c $REPO/cJSON_Utils.c 2>/dev/null | grep -E "Filename|cJSON|TOTAL" >> selftest/coverage.txt
echo "== functions never executed by any check" >> selftest/coverage.txt
llvm-cov-14 report $T/cjsim -instr-profile=$T/all.profdata -show-functions $REPO/cJSON.c $REPO/cJSON_Utils.c 2>/dev/null | awk 'NF>=7 && $4=="0.00%" {print "  " $1}' >> selftest/coverage.txt
echo "== lines never executed by any check (file:line: text)" >> selftest/coverage.txt
llvm-cov-14 show $T/cjsim -instr-profile=$T/all.profdata $REPO/cJSON.c $REPO/cJSON_Utils.c 2>/dev/null | awk -F'|' '/^\/.*:$/ {f=$0} $2 ~ /^ *0$/ {printf "  %s%s: %s\n", f, $1, $3}' | sed 's/ \+/ /g' >> selftest/coverage.txt
tail -5 selftest/coverage.txt
