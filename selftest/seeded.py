#!/usr/bin/env python3
"""Evaluate seeded breaking changes.
  selftest/seeded.py import <PROP> <i> <srcdir>   verify a candidate (tests still pass, demo passes without / fails with the change),
                                                   store it as /verif/seeded/<PROP>-<i>/ and run the property's quick check against it
  selftest/seeded.py run [<id> ...]               re-run the quick check of every stored change (or the given ids) and print a table
Scratch worktrees live under /tmp and are removed immediately."""
import json, os, re, shutil, subprocess, sys, time
VERIF = os.path.dirname(os.path.dirname(os.path.abspath(__file__)))
SEEDED = os.path.join(VERIF, "seeded")

def sh(cmd, cwd=None, timeout=1800, env=None):
    r = subprocess.run(cmd, shell=True, cwd=cwd, stdout=subprocess.PIPE, stderr=subprocess.STDOUT, text=True, errors="replace", timeout=timeout, env=env)
    return r.returncode, r.stdout

def worktree(tag):
    d = "/tmp/sv_" + tag
    sh("git -C /repo worktree remove --force %s" % d)
    shutil.rmtree(d, ignore_errors=True)
    rc, out = sh("git -C /repo worktree add -q --detach %s HEAD" % d)
    if rc != 0:
        raise SystemExit("worktree failed: " + out)
    return d

def drop(d):
    sh("git -C /repo worktree remove --force %s" % d)
    shutil.rmtree(d, ignore_errors=True)
    sh("git -C /repo worktree prune")

def demo_cmd(path):
    for l in open(path, errors="replace").read().splitlines()[:40]:
        if re.search(r"\bcc\b.*demo", l) and "OUT/" in l:
            return re.sub(r"^[\s/*]+", "", l).strip().rstrip(")").strip()
    return None

def run_check(prop, repo, budget=None):
    env = dict(os.environ, VERIF_REPO=repo)
    if budget:
        env["VERIF_BUDGET"] = str(budget)
    t0 = time.time()
    rc, out = sh("./check %s quick" % prop, cwd=VERIF, env=env, timeout=3600)
    classes = sorted(set(re.findall(r"^violation class (\S+)", out, re.M)))
    first = re.search(r"^violation class .*$", out, re.M)
    return dict(rc=rc, classes=classes, wall=round(time.time() - t0, 1), first=(first.group(0)[:700] if first else ""), tail=out[-600:] if rc not in (0, 1) else "")

def cmd_import(prop, i, src):
    sid = "%s-%s" % (prop, i)
    dst = os.path.join(SEEDED, sid)
    os.makedirs(dst, exist_ok=True)
    for f in os.listdir(src):
        if f in ("patch.diff", "notes.md") or f.startswith("demo.c"):
            shutil.copy(os.path.join(src, f), os.path.join(dst, f))
    demo = [f for f in os.listdir(dst) if f.startswith("demo.c")][0]
    d = worktree(sid)
    meta = dict(id=sid, property=prop, source="independent sub-agent given only the property text and a scratch worktree")
    try:
        cmd = demo_cmd(os.path.join(dst, demo))
        sub = re.search(r"OUT/(\d+)/", cmd or "")
        sub = sub.group(1) if sub else str(i)   # the command in the demo's header names the directory the author used
        os.makedirs(os.path.join(d, "OUT", sub), exist_ok=True)
        shutil.copy(os.path.join(dst, demo), os.path.join(d, "OUT", sub, demo))
        meta["demo_cmd"] = cmd
        rc0, out0 = sh(cmd, cwd=d, timeout=600) if cmd else (None, "no command found")
        meta["demo_unchanged_exit"] = rc0
        rc, out = sh("git apply %s" % os.path.join(dst, "patch.diff"), cwd=d)
        meta["patch_applies"] = rc == 0
        if rc != 0:
            meta["error"] = out[-400:]
        else:
            rc, out = sh("cmake -G Ninja -S . -B _b -DENABLE_CJSON_UTILS=ON -DCMAKE_C_FLAGS=-Wno-error >/dev/null 2>&1 && cmake --build _b 2>&1 | tail -3 && ctest --test-dir _b -j8 2>&1 | tail -3", cwd=d)
            meta["tests_with_utils"] = "100% tests passed" in out
            rc, out2 = sh("cmake -G Ninja -S . -B _b2 -DCMAKE_C_FLAGS=-Wno-error >/dev/null 2>&1 && cmake --build _b2 2>&1 | tail -3 && ctest --test-dir _b2 -j8 2>&1 | tail -3", cwd=d)
            meta["tests_default_19"] = "100% tests passed, 0 tests failed out of 19" in out2
            shutil.rmtree(os.path.join(d, "_b"), ignore_errors=True)
            shutil.rmtree(os.path.join(d, "_b2"), ignore_errors=True)
            rc1, out1 = sh(cmd, cwd=d, timeout=600) if cmd else (None, "")
            meta["demo_changed_exit"] = rc1
            meta["demo_changed_output_tail"] = out1[-300:]
            meta["confirmed"] = bool(meta["tests_with_utils"] and meta["tests_default_19"] and rc0 == 0 and rc1 not in (0, None))
            if meta["confirmed"]:
                meta["check"] = run_check(prop, d)
                meta["caught_by_own_check"] = meta["check"]["rc"] == 1
    finally:
        drop(d)
        shutil.rmtree(os.path.join(VERIF, "build", "alt-" + __import__("hashlib").sha1(d.encode()).hexdigest()[:10]), ignore_errors=True)
    notes = os.path.join(dst, "notes.md")
    meta["needs"] = ""
    json.dump(meta, open(os.path.join(dst, "meta.json"), "w"), indent=1)
    print(json.dumps({k: meta.get(k) for k in ("id", "confirmed", "tests_with_utils", "tests_default_19", "demo_unchanged_exit", "demo_changed_exit", "caught_by_own_check")}), (meta.get("check") or {}).get("classes"))

def cmd_run(ids, props=None):
    rows = []
    for sid in sorted(os.listdir(SEEDED)):
        if ids and sid not in ids:
            continue
        mp = os.path.join(SEEDED, sid, "meta.json")
        if not os.path.exists(mp):
            continue
        meta = json.load(open(mp))
        if not meta.get("confirmed"):
            continue
        d = worktree(sid)
        try:
            rc, out = sh("git apply %s" % os.path.join(SEEDED, sid, "patch.diff"), cwd=d)
            if rc != 0:
                rc, out = sh("git apply -3 %s" % os.path.join(SEEDED, sid, "patch.diff"), cwd=d)
            if rc != 0:
                print(sid, "PATCH NO LONGER APPLIES to the current /repo HEAD:", out[-200:].replace("\n", " "), flush=True)
                meta["applies_to_head"] = False
                json.dump(meta, open(mp, "w"), indent=1)
                continue
            meta["applies_to_head"] = True
            for prop in (props or [meta["property"]]):
                r = run_check(prop, d)
                key = "check" if prop == meta["property"] else "check_" + prop
                meta[key] = r
                if prop == meta["property"]:
                    meta["caught_by_own_check"] = r["rc"] == 1
                print(sid, prop, "rc=%s" % r["rc"], r["classes"], "%ss" % r["wall"], flush=True)
        finally:
            drop(d)
            shutil.rmtree(os.path.join(VERIF, "build", "alt-" + __import__("hashlib").sha1(d.encode()).hexdigest()[:10]), ignore_errors=True)
        json.dump(meta, open(mp, "w"), indent=1)

if __name__ == "__main__":
    if sys.argv[1] == "import":
        cmd_import(sys.argv[2], sys.argv[3], sys.argv[4])
    else:
        ids = [a for a in sys.argv[2:] if not a.startswith("--props=")]
        props = None
        for a in sys.argv[2:]:
            if a.startswith("--props="):
                props = a[8:].split(",")
        cmd_run(ids, props)
