#!/usr/bin/env python3
"""Determinism self-test: every (property, seed, run[, sub]) must produce the same event-log hash
 - when executed twice in the same batch process layout,
 - when the batch is spread over 1, 8 and 16 worker processes,
 - when a plan is regenerated and replayed in a fresh process.
Usage: selftest/determinism.py [runs_per_property] [props...]"""
import os, subprocess, sys, tempfile, json, re
VERIF = os.path.dirname(os.path.dirname(os.path.abspath(__file__)))
sys.path.insert(0, VERIF)
from checkcfg import PROPS
os.environ.setdefault("TSAN_OPTIONS", "suppressions=" + os.path.join(VERIF, "sim", "tsan.supp"))

def batch(exe, prop, seed, first, stride, count):
    env = dict(os.environ, CJSIM_PRINT_HASHES="1")
    r = subprocess.run([exe, "batch", prop, str(seed), str(first), str(stride), str(count), "600", "-", "-"], stdout=subprocess.PIPE, stderr=subprocess.DEVNULL, env=env, text=True)
    out = {}
    for l in r.stdout.splitlines():
        if l.startswith("H "):
            f = l.split()
            out[(int(f[1]), int(f[2]))] = (f[3], f[4])
    return out, r.returncode

def main():
    n = int(sys.argv[1]) if len(sys.argv) > 1 else 200
    props = sys.argv[2:] or sorted(PROPS)
    subprocess.run(["make", "-C", os.path.join(VERIF, "sim"), "-j16", "asan", "tsan"], stdout=subprocess.DEVNULL, check=True)
    bad = 0
    total = 0
    for prop in props:
        exe = os.path.join(VERIF, "build", PROPS[prop]["flavour"], "cjsim")
        nn = n if prop not in ("C01",) else max(4, n // 40)
        for seed in (1, 987654321):
            ref, rc = batch(exe, prop, seed, 0, 1, nn)
            again, _ = batch(exe, prop, seed, 0, 1, nn)
            merged = {}
            for W in (8, 16):
                m = {}
                for w in range(W):
                    part, _ = batch(exe, prop, seed, w, W, (nn + W - 1) // W)
                    m.update(part)
                merged[W] = m
            keys = [k for k in ref]
            total += len(keys)
            for k in keys:
                vals = [ref[k], again.get(k)] + [merged[W].get(k) for W in (8, 16) if k[0] < nn and k in merged[W]]
                if any(v != ref[k] for v in vals if v is not None) or again.get(k) is None:
                    bad += 1
                    if bad < 10:
                        print("NONDETERMINISTIC", prop, seed, k, vals)
            # fresh-process replay of regenerated plans (first 5 runs)
            for run in range(min(5, nn)):
                g = subprocess.run([exe, "gen", prop, str(seed), str(run)], stdout=subprocess.PIPE, text=True)
                with tempfile.NamedTemporaryFile("w", suffix=".plan", delete=False) as f:
                    f.write(g.stdout)
                    path = f.name
                r = subprocess.run([exe, "replay", path], stdout=subprocess.PIPE, stderr=subprocess.DEVNULL, text=True)
                os.unlink(path)
                m = re.search(r"^HASH (\S+)", r.stdout, re.M)
                h = m.group(1) if m else None
                if (run, -1) in ref and h != ref[(run, -1)][0]:
                    bad += 1
                    print("REPLAY-MISMATCH", prop, seed, run, h, ref[(run, -1)])
            print("%s seed %d: %d executions compared across 1/1/8/16 workers" % (prop, seed, len(keys)), flush=True)
    print("determinism: %d executions, %d mismatches" % (total, bad))
    return 1 if bad else 0

if __name__ == "__main__":
    sys.exit(main())
