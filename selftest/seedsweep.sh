#!/bin/sh
# No-false-alarm sweep: every quick check on the unchanged tree under N different VERIF_SEEDs must exit 0.
# usage: selftest/seedsweep.sh [N] [budget_seconds]
N=${1:-20}; B=${2:-6}
cd "$(dirname "$0")/.."
export VERIF_EVIDENCE_DIR="$PWD/build/sweep-evidence"   # the sweep never replaces the committed evidence
fail=0
for s in $(seq 1 $N); do
  seed=$((s * 7919 + 13))
  for p in C01 C03 C04 C05 C06 C07 C08 C09 C10 C11 C14 C16 C17 C18 C19 C20; do
    out=$(VERIF_SEED=$seed VERIF_BUDGET=$B ./check $p quick 2>&1); rc=$?
    if [ $rc -ne 0 ]; then fail=$((fail+1)); echo "SEED $seed $p rc=$rc"; echo "$out" | grep -E "^violation|^VIOLATION|MACHINERY" | cut -c1-600; fi
  done
  echo "seed $seed done (failures so far: $fail)"
done
echo "sweep finished: $fail failing (seed, check) pairs"
# restore the evidence files of the default seed
