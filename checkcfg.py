# Per-property configuration of the driver: flavour, tier budgets (max runs, wall seconds per worker),
# evidence texts. Numbers are budgets; what a run actually covered is measured and written as evidence.
DEFAULT_SEED = 20261004

SIM_ALLOC = "allocator (custom hooks: private arena with redzones, released blocks quarantined for the run or - a third of the custom runs - handed to the next request of the same size; default: renamed malloc/free/realloc with ledger)"
SIM_BORROW = "memory the caller lends (constant keys, texts of string references, member names and pointer texts of patches built through the constructors): read-only mappings while the library runs, every lent text ends flush against a poisoned granule"
SIM_IN = "input buffer (bytes flush against an inaccessible page, read-only during the call)"
SIM_OUT = "caller output buffer (capacity n flush against an inaccessible page, canaries in front)"
SIM_SCHED = "task scheduler (cooperative fibers on one OS thread; every switch decided by the plan)"

COMMON_ASSUME = [
    "locale stays C (only C/POSIX locales exist in this sandbox)",
    "CJSON_NESTING_LIMIT=1000 and CJSON_CIRCULAR_LIMIT=10000 as shipped",
    "simulation samples schedules/histories/faults by seed; a clean batch is evidence, not proof",
    "sanitizers: AddressSanitizer + UndefinedBehaviorSanitizer (pointer-overflow check off, see DESIGN 3)",
]

def P(flavour, level, quick, thorough, rule, measure, simulated, probes=(), assumptions=(), **kw):
    d = dict(flavour=flavour, level=level, quick=quick, thorough=thorough, rule=rule, distinct_measure=measure,
             simulated=list(simulated), expected_probes=list(probes), assumptions=COMMON_ASSUME + list(assumptions))
    d.update(kw)
    return d

PROPS = {
    "C06": P("asan", "exploration", (120000, 25), (6000000, 420),
             "seeded histories of 8-63 core construction/edit/query calls (arguments interpreted modulo live state) against the list/map model; refinement checked after every step. A case is distinct by the hash of the whole model state after the step and non-trivial when the step mutated a container that then holds >= 2 items (or >= 1 after a removal).",
             "hash of the model state (all live trees) after a non-trivial mutating step",
             [SIM_ALLOC], probes=["detach_last", "detach_first", "insert_at_0", "replace_only_child", "case_folded_match", "insert_self", "reference_node_created", "constant_key", "setvaluestring_grow"]),

    "C07": P("asan", "exploration", (100000, 25), (4000000, 420),
             "seeded histories of core calls plus parse, print, duplicate, delete, reference nodes, constant keys from a canaried caller pool, string references and key arguments aliasing the moved item's own key; the allocator ledger is the oracle after every step (wrong/double/foreign release), freed custom blocks stay poisoned for the whole run (touch-after-release is an ASan report), the pool is compared byte for byte, and at the end every root is deleted and the live set must be empty. Distinct by model-state hash after a step; non-trivial as in C06.",
             "hash of the model state after a non-trivial mutating step",
             [SIM_ALLOC, SIM_IN, SIM_BORROW], probes=["alias_key_add", "alias_key_replace", "reference_node_created", "constant_key", "dup_of_reference", "setvaluestring_grow", "detach_last", "reference_added_under_the_items_own_key", "referenced_item_renamed"]),
    "C14": P("asan", "exploration", (40000, 25), (2000000, 420),
             "a run is 2-4 epochs; each starts with an empty ledger and a hook configuration drawn from {default, both custom, malloc only, free only, NULL members, reset}, then runs a history over core and Utils calls; every allocator entry is checked against the routing the configuration allows (libc functions never called on the library's behalf under custom hooks, realloc only in the default configuration, every release reaches the counterpart of the function that allocated the block). Distinct by model-state hash.",
             "hash of the model state after a non-trivial mutating step, across hook configurations",
             [SIM_ALLOC, SIM_IN, SIM_BORROW], probes=["sorted", "patch_succeeded", "patch_built_through_constructors_with_lent_texts"]),
    "C04": P("asan", "exploration", (40000, 30), (2500000, 480),
             "trees of every provenance (constructors, helpers, edits, parser, duplicate; depth up to 1000) are printed with Print, PrintUnformatted, PrintBuffered (prebuffer from {0,1,2,len-1,len,len+1,256,...}; in a sixth of the evaluations of texts up to 800 bytes EVERY prebuffer 0..length is tried) and PrintPreallocated under both allocator configurations (default with realloc moving / shrinking in place; custom hooks without realloc); all byte streams must agree, parse back to an equal tree (numbers within 2^-52 relative, exact for integers below 1e15) and re-print byte-identically. Distinct by (tree hash, home allocator configuration); non-trivial when the tree is a container with a non-integer number or a string needing escapes/high bytes.",
             "hash of (printed tree, allocator configuration) for non-trivial trees",
             [SIM_ALLOC, SIM_IN, SIM_OUT], probes=["text_crosses_256", "deep_tree_built", "wide_tree_built", "prebuffer_enumerated", "big_tree_built"]),
    "C05": P("asan", "exploration", (60000, 30), (2500000, 480),
             "trees with valid UTF-8 strings and possibly non-finite numbers are printed by all variants; an independent strict RFC 8259 reader must accept each text and decode it to the model value (non-finite -> null), the formatted text minus insignificant whitespace must equal the unformatted text, buffered/preallocated bytes must equal the plain ones, integer-valued numbers in int range must be plain decimal integers. Distinct by tree hash; non-trivial when the tree is a container printing to more than 20 bytes.",
             "hash of the printed tree for non-trivial trees",
             [SIM_ALLOC, SIM_IN, SIM_OUT], probes=["nonfinite_printed"]),
    "C09": P("asan", "fault_enumeration", (5000, 30), (600000, 480),
             "for every generated tree and both formats, the capacity fault 'caller buffer holds n bytes' is enumerated for every n in [0, text length + 16]; the buffer ends flush against an inaccessible page and has canaries in front. Oracles: nothing outside [0,n) is touched, true means the complete zero-terminated text of the allocating print, n >= length+1+5 succeeds, success is monotone in n. Distinct by (text hash, format, n - length); counted only for texts longer than 8 bytes.",
             "(printed text, format, n - text length) triples",
             [SIM_ALLOC, SIM_OUT]),
    "C11": P("asan", "exploration", (20000, 25), (3000000, 420),
             "trees with references, constant keys and nested containers are duplicated; the copy must equal the model of the source (references resolved to owned copies, reference bits cleared, constant keys shared), compare equal, print identically, have no sibling links and share no owned block with the source (address sets disjoint, every pointer a live ledger block); then 5-30 edit/delete steps on source and copy in random order: a tree not involved in a call must never change. Chains of 100..30000 containers and 2-5 node cycles built through the API must be refused beyond CJSON_CIRCULAR_LIMIT without leak, stack overflow (8 MiB stack) or modification of the source. Distinct by model-state hash.",
             "hash of the model state after a non-trivial step (duplicate of a container with >= 2 items, deep/cyclic scenario, or mutation)",
             [SIM_ALLOC], probes=["dup_with_references", "dup_with_constant_keys", "dup_deep_refused", "dup_deep_accepted", "dup_cyclic_refused"]),
    "C16": P("asan", "exploration", (60000, 25), (2500000, 420),
             "documents with distinct keys over an alphabet containing / ~ 0 1 - and the empty key; patches of 1-8 operations are assembled step by step against the evolving reference state (valid pointers incl. ~0 ~1 and '-', deliberate failures: missing member, index out of range, failed test, missing op/path/value/from, move into own child) and applied with cJSONUtils_ApplyPatchesCaseSensitive; status must be 0 exactly when the reference RFC 6902 evaluator succeeds and then the documents must be equal (objects as sets). patch_corrupt faults (type swaps, member deletion, number in 'from', non-array root, odd pointers) are judged for robustness only: no crash, well-formed document, balanced ledger. Distinct by (patch text, document text) for patches the reference accepts.",
             "(patch, document) pairs that the reference evaluator applies successfully",
             [SIM_ALLOC, SIM_IN, SIM_BORROW], probes=["patch_succeeded", "patch_failed_as_predicted", "patch_corrupt_survived", "patch_built_through_constructors_with_lent_texts", "patch_move_target_exists_only_after_removal", "patch_pointer_without_any_slash", "patch_pointer_ends_in_a_lone_tilde", "patch_test_aimed_at_a_reference_node", "patch_test_aimed_at_a_reference_to_a_wide_object"]),
    "C17": P("asan", "exploration", (80000, 25), (2500000, 420),
             "pairs (from, to): independent documents or 'to' derived from 'from' by 1-6 edits, keys including / and ~; cJSONUtils_GeneratePatchesCaseSensitive must return an array of well-formed operations that, applied to a copy of 'from' by the library and to the model by the reference evaluator, yields 'to'; empty iff equal; both inputs must keep exactly their nodes (order free) and stay well-formed, and 3-15 follow-up edits on them are judged against the list/map model. Distinct by (patch text, from text) for non-empty patches.",
             "(generated patch, from-document) pairs with a non-empty patch",
             [SIM_ALLOC, SIM_IN], probes=["generated_patch_applied_to_from_itself_then_again", "document_rebuilt_through_constructors"]),
    "C18": P("asan", "exploration", (80000, 25), (2500000, 420),
             "(target, patch) pairs incl. non-object patches, null members at every depth, non-object targets and keys differing only in case: cJSONUtils_MergePatchCaseSensitive must equal the reference RFC 7396 merge (objects as sets) and leave the patch untouched; (from, to) pairs with 'to' free of null members: the generated merge patch applied by the library and by the reference must yield 'to' (NULL = no change); inputs keep their nodes and stay well-formed; follow-up edits are judged. Distinct by (target text, patch text) / (from text, to text).",
             "(target, patch) and (from, to) pairs with a non-trivial patch",
             [SIM_ALLOC, SIM_IN], probes=["merge_null_member", "generated_merge_patch_applied_to_from_itself_then_again", "document_rebuilt_through_constructors"]),
    "C19": P("asan", "exploration", (120000, 25), (4000000, 420),
             "objects of 0-40 members with duplicate, case-variant, empty and high-byte keys are sorted (both variants); the result must be the same nodes in non-decreasing key order, a second sort must keep it (with all-distinct keys: the very same order), the structural walk must pass (in particular first->prev == last), printing must equal a freshly built twin, and every following append/insert/detach/replace/delete is judged against the list/map model. A third of the histories reach the sort through the other utilities (patch test, patch and merge-patch generation); a quarter of the patch-test histories test a document that sees (often wide, 33+ member) containers of a second tree through reference nodes, and the owner's tree is walked after the call. Distinct by model-state hash.",
             "hash of the model state after a non-trivial step (sort of >= 3 members or a judged mutation of a sorted object)",
             [SIM_ALLOC], probes=["sorted", "sort_duplicate_keys", "patch_test_aimed_at_a_reference_node", "patch_test_aimed_at_a_reference_to_a_wide_object"]),

    "C08": P("asan", "fault_enumeration", (14000, 30), (400000, 480),
             "a scenario is a fault-free prefix history (2-25 steps), one target call (parse entry points, print variants, every create*, bulk constructors, Add*ToObject helpers, AddItemToObject, AddItemReferenceTo*, Duplicate, ReplaceItemInObject*, SetValuestring growing) and a fault-free suffix; the target is first run fault-free to count its n allocation requests, then the scenario is replayed once per k in 1..n with request k refused (custom malloc, or default malloc/realloc). Oracles: the call completes normally or returns its documented failure value; on failure the ledger live set equals the one before the call, every pre-existing root passes the structural walk and prints the same two texts; the suffix runs without crash and the final ledger is balanced. Distinct by (target call kind, k, allocator side, outcome); non-trivial when k >= 2.",
             "(target call kind, k, allocator side, outcome) tuples with k >= 2",
             [SIM_ALLOC, SIM_IN], probes=["failed_cleanly"], hang_s=120),

    "C01": P("asan", "fault_enumeration", (2400, 30), (300000, 480),
             "the document store is filled with texts serialised from random model values (all token kinds, escapes, surrogates, 63-character numbers, BOM, whitespace), token soups, raw blocks and 998..100000-deep nestings; sampled storage faults (bit flip, byte replace, lost/duplicated span, inserted structural byte, splice, zero byte, grammar-biased edits such as bare \\u runs, ...) are applied; in a third of the runs the short-write fault is then ENUMERATED: every truncation point n in [0,|t|] (documents up to 4000 bytes), each once as exact-length unterminated buffer and once zero-terminated; the other runs only sample faults. Reads go through 1-3 of the four entry points (both require_null_terminated values, with/without return_parse_end, both allocator configurations). The bytes end flush against an inaccessible page and are read-only during the call. Oracles: no access outside the declared bytes, input unchanged, call returns, result NULL or a tree that passes a bounded structural walk, prints in both formats and deletes; ledger live set afterwards equals the one before. Distinct by (byte class before the cut, byte class after the cut, entry point, terminated?, last sampled fault kind, outcome) for non-empty documents.",
             "(byte class left of the cut, byte class right of the cut, entry point, terminated, truncated?, last fault kind, NULL/tree) tuples",
             [SIM_ALLOC, SIM_IN], probes=["deep_document", "long_number_token"], hang_s=120),
    "C03": P("asan", "exploration", (80000, 25), (8000000, 420),
             "stored valid documents, token soups and deep nestings are hit by single-edit storage faults biased to each grammar rule the statement names (bracket swap/drop, separator drop/duplicate, quote drop, key replaced by number/literal/word, truncation, literal misspelling and case change, digits removed, dangling point/exponent, unknown escape, \\u with 0-3 or non-hex digits, lone/reversed surrogates, nesting 999..1100 and 1e5, trailing garbage); an independent dialect recogniser classifies the faulted bytes as outside / inside / unspecified (demanding only what every reading of the statement demands); OUTSIDE => all entry points return NULL and the ledger is unchanged by the call. Distinct by (fault kind, reason the recogniser rejects, byte classes around the position where it stops, entry point, require_null_terminated).",
             "(fault kind, rejection reason, byte classes at the rejection point, entry point, termination flag) tuples classified 'outside'",
             [SIM_ALLOC, SIM_IN], probes=["verdict_outside", "verdict_inside", "verdict_unspecified", "deep_document"], hang_s=120),
    "C10": P("asan", "exploration", (50000, 25), (5000000, 420),
             "histories of 2-6 document groups (intact, corrupted, truncated, with trailing bytes/whitespace/zero bytes, with and without terminator), each read 1-3 times through the four entry points with and without return_parse_end; the global error position carries over between calls. Oracles: on success buf <= end <= buf+n, the bytes before end parse alone to an equal tree, cJSON_GetErrorPtr()==NULL; with require_null_terminated success iff the non-required parse succeeds and the trailer is whitespace then a zero byte (trailers with bytes after a zero byte are left open); on failure NULL, return_parse_end == cJSON_GetErrorPtr() inside [buf, buf+n-1]. Distinct by (entry, flags, outcome, trailer class, last fault).",
             "(entry point, flags, outcome, trailer class, last fault kind) tuples",
             [SIM_ALLOC, SIM_IN], probes=["trailer_ws-then-zero", "trailer_no-zero-byte", "trailer_garbage", "trailer_zero-then-more", "trailer_no-value"], hang_s=120),

    "C20": P("tsan", "exploration", (20000, 30), (600000, 540),
             "2-4 tasks, each with a private sequence of library calls (parse with return_parse_end, all print variants, edits, compare, duplicate, minify, pointer/patch/merge/sort utilities, delete) on private trees and buffers, hooks installed before the tasks start; the tasks are cooperative fibers on one OS thread and every switch (at allocator calls and at the guarded CJSON_VERIF_YIELD sites inside parse/print/delete/duplicate/sort/patch loops) is taken from the plan's seeded choice list (uniform with per-run switch probability, or a few PCT-style change points). Oracles: (A) each task's trace equals the trace of the same sequence run alone; (B) ThreadSanitizer, told that switches do not synchronise, reports no conflicting accesses (only global_error is suppressed). Distinct by the hash of the (task, yield site, next task) sequence; non-trivial with >= 2 preemptions inside library calls.",
             "hash of the executed (task, yield-site, next task) switch sequence with >= 2 preemptions",
             [SIM_ALLOC, SIM_IN, SIM_OUT, SIM_SCHED], assumptions=["the library is built -fsanitize=thread -O0; the harness is not instrumented", "ThreadSanitizer suppression: race:global_error (the documented exception) only"], workers=12, hang_s=120, runs_per_process=150),
}
