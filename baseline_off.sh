#!/bin/sh
# Runs the repository's own test suite with the verification guard OFF, in a scratch build
# directory outside /repo and /verif, and removes that directory afterwards.
set -e
REPO=${VERIF_REPO:-/repo}
D=$(mktemp -d /tmp/cjson-baseline.XXXXXX)
trap 'rm -rf "$D"' EXIT
cmake -G Ninja -S "$REPO" -B "$D/b" -DCMAKE_BUILD_TYPE=RelWithDebInfo -DCMAKE_C_FLAGS=-Wno-error >"$D/cmake.log" 2>&1 || { cat "$D/cmake.log"; exit 1; }
cmake --build "$D/b" >"$D/build.log" 2>&1 || { tail -50 "$D/build.log"; exit 1; }
if grep -q DAVEGAMBLE_CJSON_VERIF "$D/b/build.ninja"; then echo "guard unexpectedly defined in the baseline build"; exit 1; fi
ctest --test-dir "$D/b" -j8 --timeout 900
